#!/bin/bash
# Replays every recorded finding against /repo's current working tree. exit 0 = none reproduces.
cd "$(dirname "$0")/.." || exit 2
rc=0
for f in regressions/*.json; do
  id=$(basename "$f" | cut -c1-3)
  out=$(./check "$id" --replay "$f" 2>&1); r=$?
  if [ $r -eq 0 ]; then echo "ok (no violation)  $f"; else echo "REPRODUCES rc=$r     $f"; echo "$out" | grep -E "signature|HARNESS" | head -2; rc=1; fi
done
exit $rc
