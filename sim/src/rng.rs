//! The only source of randomness in the whole harness: SplitMix64 seeding a xoshiro256**.
//! No `rand` crate, no `RandomState`; one generator per run, derived from VERIF_SEED.

#[derive(Clone, Debug)]
pub struct Rng {
    s: [u64; 4],
    pub draws: u64,
}

pub fn splitmix(x: &mut u64) -> u64 {
    *x = x.wrapping_add(0x9E37_79B9_7F4A_7C15);
    let mut z = *x;
    z = (z ^ (z >> 30)).wrapping_mul(0xBF58_476D_1CE4_E5B9);
    z = (z ^ (z >> 27)).wrapping_mul(0x94D0_49BB_1331_11EB);
    z ^ (z >> 31)
}

/// Mix several integers into one seed (used for run seed = mix(VERIF_SEED, property, profile, run)).
pub fn mix(parts: &[u64]) -> u64 {
    let mut h: u64 = 0x243F_6A88_85A3_08D3;
    for p in parts {
        let mut x = h ^ p.wrapping_mul(0x9E37_79B9_7F4A_7C15);
        h = splitmix(&mut x);
    }
    h
}

impl Rng {
    pub fn new(seed: u64) -> Rng {
        let mut x = seed;
        let s = [splitmix(&mut x), splitmix(&mut x), splitmix(&mut x), splitmix(&mut x)];
        Rng { s, draws: 0 }
    }
    #[inline]
    pub fn next_u64(&mut self) -> u64 {
        self.draws += 1;
        let result = self.s[1].wrapping_mul(5).rotate_left(7).wrapping_mul(9);
        let t = self.s[1] << 17;
        self.s[2] ^= self.s[0];
        self.s[3] ^= self.s[1];
        self.s[1] ^= self.s[2];
        self.s[0] ^= self.s[3];
        self.s[2] ^= t;
        self.s[3] = self.s[3].rotate_left(45);
        result
    }
    /// Uniform in 0..n (n > 0).
    #[inline]
    pub fn below(&mut self, n: u64) -> u64 {
        debug_assert!(n > 0);
        // multiply-shift; bias is negligible for the n used here (< 2^32)
        ((self.next_u64() as u128 * n as u128) >> 64) as u64
    }
    #[inline]
    pub fn usize(&mut self, n: usize) -> usize {
        self.below(n as u64) as usize
    }
    /// Inclusive range.
    #[inline]
    pub fn range(&mut self, lo: u64, hi: u64) -> u64 {
        lo + self.below(hi - lo + 1)
    }
    /// True with probability num/den.
    #[inline]
    pub fn chance(&mut self, num: u64, den: u64) -> bool {
        self.below(den) < num
    }
    pub fn pick<'a, T>(&mut self, v: &'a [T]) -> &'a T {
        &v[self.usize(v.len())]
    }
    pub fn shuffle<T>(&mut self, v: &mut [T]) {
        for i in (1..v.len()).rev() {
            let j = self.usize(i + 1);
            v.swap(i, j);
        }
    }
    /// Pick an index according to integer weights (sum > 0).
    pub fn weighted(&mut self, w: &[u32]) -> usize {
        let total: u64 = w.iter().map(|x| *x as u64).sum();
        let mut r = self.below(total);
        for (i, x) in w.iter().enumerate() {
            if r < *x as u64 {
                return i;
            }
            r -= *x as u64;
        }
        w.len() - 1
    }
}

/// FNV-1a 64 — event-log digests and fingerprints.
#[derive(Clone, Copy, Debug)]
pub struct Fnv(pub u64);
impl Fnv {
    pub fn new() -> Fnv {
        Fnv(0xcbf2_9ce4_8422_2325)
    }
    #[inline]
    pub fn byte(&mut self, b: u8) {
        self.0 ^= b as u64;
        self.0 = self.0.wrapping_mul(0x0000_0100_0000_01B3);
    }
    pub fn bytes(&mut self, bs: &[u8]) {
        for b in bs {
            self.byte(*b);
        }
    }
    pub fn u64(&mut self, x: u64) {
        self.bytes(&x.to_le_bytes());
    }
    pub fn str(&mut self, s: &str) {
        self.bytes(s.as_bytes());
        self.byte(0xff);
    }
}

/// 64-bit fingerprint of a byte string with a second, independent mixing (for 128-bit keys use both).
pub fn fp64(bs: &[u8]) -> u64 {
    let mut f = Fnv::new();
    f.bytes(bs);
    let mut x = f.0;
    splitmix(&mut x)
}
pub fn fp64b(bs: &[u8]) -> u64 {
    let mut h: u64 = 0x9E37_79B9_7F4A_7C15;
    for b in bs {
        h = (h ^ (*b as u64)).wrapping_mul(0xff51_afd7_ed55_8ccd);
        h ^= h >> 29;
    }
    let mut x = h;
    splitmix(&mut x)
}
