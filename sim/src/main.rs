mod conv;
mod engine;
mod exec;
mod model;
mod ops;
mod oracle;
mod rng;
mod selftest;
mod text;

fn main() {
    let args: Vec<String> = std::env::args().collect();
    if args.get(1).map(|s| s.as_str()) == Some("selftest") {
        let t = std::time::Instant::now();
        match selftest::structural().and_then(|_| selftest::run_cases(selftest::QUICK)) {
            Ok(n) => println!("quick ok {} nodes {:?}", n, t.elapsed()),
            Err(e) => { eprintln!("SELFTEST FAILED: {}", e); std::process::exit(2) }
        }
        if args.get(2).map(|s| s.as_str()) == Some("full") {
            match selftest::run_cases(selftest::FULL) {
                Ok(n) => println!("full ok {} nodes {:?}", n, t.elapsed()),
                Err(e) => { eprintln!("SELFTEST FAILED: {}", e); std::process::exit(2) }
            }
        }
    }
}
