//! chess-dst: deterministic simulation with fault injection for the `chess` crate.
//! Subcommands: selftest | check | worker | replay | trace | replay-raw | audit | run1

mod conv;
mod engine;
mod exec;
mod gen;
mod json;
mod meta;
mod model;
mod ops;
mod oracle;
mod rng;
mod run;
mod selftest;
mod text;
mod world;

use exec::prop_index;
use ops::Step;
use oracle::Violation;
use run::*;
use std::collections::{BTreeMap, HashMap, HashSet};
use std::io::{BufRead, BufReader, Write};
use std::process::{Command, Stdio};
use world::End;

const VERIF: &str = "/verif";

fn arg<'a>(args: &'a [String], k: &str) -> Option<&'a str> {
    args.iter().position(|a| a == k).and_then(|i| args.get(i + 1)).map(|s| s.as_str())
}
fn arg_u64(args: &[String], k: &str, d: u64) -> u64 {
    arg(args, k).and_then(|s| s.parse().ok()).unwrap_or(d)
}

fn quiet_panics() {
    std::panic::set_hook(Box::new(|info| {
        let s = format!("{}", info);
        if s.contains("HARNESS") {
            eprintln!("{}", s);
        }
    }));
}

fn main() {
    let args: Vec<String> = std::env::args().collect();
    let cmd = args.get(1).map(|s| s.as_str()).unwrap_or("");
    let code = match cmd {
        "selftest" => cmd_selftest(args.get(2).map(|s| s.as_str()) == Some("full")),
        "worker" => cmd_worker(&args),
        "check" => cmd_check(&args),
        "replay" => cmd_replay(&args),
        "replay-raw" => cmd_replay_raw(&args),
        "trace" => cmd_trace(&args),
        "audit" => cmd_audit(&args),
        "run1" => cmd_run1(&args),
        _ => {
            eprintln!("usage: chess-dst selftest|check|worker|replay|trace|audit|run1 ...");
            2
        }
    };
    std::process::exit(code);
}

fn cmd_selftest(full: bool) -> i32 {
    let t = std::time::Instant::now();
    if let Err(e) = selftest::structural().and_then(|_| selftest::run_cases(selftest::QUICK)) {
        eprintln!("HARNESS ERROR: reference model self-test failed: {}", e);
        return 2;
    }
    if full {
        // on all cores: one thread per case (this is not simulation code)
        let hs: Vec<_> = selftest::FULL
            .iter()
            .map(|c| std::thread::spawn(move || selftest::run_cases(std::slice::from_ref(c))))
            .collect();
        for h in hs {
            match h.join() {
                Ok(Ok(_)) => {}
                Ok(Err(e)) => {
                    eprintln!("HARNESS ERROR: reference model self-test failed: {}", e);
                    return 2;
                }
                Err(_) => return 2,
            }
        }
    }
    println!("model self-test ok ({}; {:.2}s)", if full { "full" } else { "quick" }, t.elapsed().as_secs_f64());
    0
}

// ------------------------------------------------------------------------------------------ worker

/// Runs indices i in [from, to) with i % stride == offset. Protocol on stdout, one line per event.
fn cmd_worker(args: &[String]) -> i32 {
    quiet_panics();
    let prop = arg_u64(args, "--prop", 10) as usize;
    let seed = arg_u64(args, "--seed", 1);
    let fi = arg_u64(args, "--fi", 0) == 1;
    let from = arg_u64(args, "--from", 0);
    let to = arg_u64(args, "--to", 0);
    let stride = arg_u64(args, "--stride", 1);
    let offset = arg_u64(args, "--offset", 0);
    let out_dir = arg(args, "--out").unwrap_or("").to_string();
    let digests_only = arg(args, "--digests").is_some();
    // watchdog (not part of the simulation): a single run that exceeds 180 s of wall clock is a hang
    let started = std::sync::Arc::new(std::sync::atomic::AtomicU64::new(0));
    let cur_idx = std::sync::Arc::new(std::sync::atomic::AtomicU64::new(0));
    {
        let started = started.clone();
        let cur_idx = cur_idx.clone();
        let t0 = std::time::Instant::now();
        std::thread::spawn(move || loop {
            std::thread::sleep(std::time::Duration::from_millis(1000));
            let s = started.load(std::sync::atomic::Ordering::Relaxed);
            let now = t0.elapsed().as_secs() + 1;
            if s > 0 && now > s + 180 {
                eprintln!("HARNESS ERROR: run {} did not finish within 180 s (hang)", cur_idx.load(std::sync::atomic::Ordering::Relaxed));
                std::process::exit(3);
            }
        });
    }
    let wall0 = std::time::Instant::now();
    let stdout = std::io::stdout();
    let mut o = stdout.lock();
    let mut counters: BTreeMap<String, u64> = BTreeMap::new();
    let mut distinct: HashSet<u64> = HashSet::new();
    let mut keys: HashMap<(u64, u64), (u64, u64)> = HashMap::new(); // key fp -> (hash, run)
    let mut by_hash: HashMap<u64, ((u64, u64), u64)> = HashMap::new(); // hash -> (key fp, run)
    let mut digests: HashSet<u64> = HashSet::new();
    let mut evals = 0u64;
    let mut runs = 0u64;
    let mut sim_ms = 0u64;
    let mut plies = 0u64;
    let mut sample_done = false;
    let mut i = from + ((offset + stride - (from % stride)) % stride);
    while i < to {
        writeln!(o, "B {}", i).ok();
        o.flush().ok();
        cur_idx.store(i, std::sync::atomic::Ordering::Relaxed);
        started.store(wall0.elapsed().as_secs() + 1, std::sync::atomic::Ordering::Relaxed);
        let out = run_one(seed, prop, fi, i);
        runs += 1;
        evals += out.stats.evals;
        sim_ms += out.stats.sim_ms;
        plies += out.stats.plies;
        digests.insert(out.digest);
        match &out.end {
            End::Clean => {}
            End::Violation(v) => {
                writeln!(o, "V {} {}\t{}", i, v.sig, v.detail.replace('\n', " ")).ok();
            }
            End::Foreign(d) => {
                if d.starts_with("journal START record unusable") {
                    // a legitimate end of the deployment (the START record rotted), not a divergence
                    *counters.entry("deployment_dead_after_start_record_rot".into()).or_insert(0) += 1;
                } else {
                    *counters.entry("truncated_foreign_divergence".into()).or_insert(0) += 1;
                    writeln!(o, "F {} {}", i, d.replace('\n', " ")).ok();
                }
            }
        }
        if digests_only {
            writeln!(o, "E {} {:016x}", i, out.digest).ok();
        }
        for (k, v) in out.stats.counters.iter() {
            *counters.entry(k.to_string()).or_insert(0) += v;
        }
        for (k, v) in out.stats.dyn_counters.iter() {
            *counters.entry(k.clone()).or_insert(0) += v;
        }
        for d in out.stats.distinct.iter() {
            distinct.insert(*d);
        }
        for (a, b, h) in out.stats.keys.iter() {
            match keys.get(&(*a, *b)) {
                None => {
                    keys.insert((*a, *b), (*h, i));
                }
                Some((h0, r0)) => {
                    if h0 != h {
                        writeln!(o, "X same_key_two_hashes {:016x}{:016x} {} {} {:016x} {:016x}", a, b, r0, i, h0, h).ok();
                    }
                }
            }
            match by_hash.get(h) {
                None => {
                    by_hash.insert(*h, ((*a, *b), i));
                }
                Some((k0, r0)) => {
                    if *k0 != (*a, *b) {
                        writeln!(o, "X collision {:016x}{:016x} {} {:016x}{:016x} {} {:016x}", k0.0, k0.1, r0, a, b, i, h).ok();
                    }
                }
            }
        }
        if !sample_done && out.script.len() > 3 && offset == 0 {
            sample_done = true;
            let lines: Vec<String> = out.script.iter().take(14).map(|s| s.to_line()).collect();
            writeln!(o, "S {}\t{}\t{}", i, out.cfg, lines.join("\u{1}")).ok();
        }
        i += stride;
    }
    writeln!(o, "T runs {} evals {} sim_ms {} plies {} digests {}", runs, evals, sim_ms, plies, digests.len()).ok();
    for (k, v) in counters.iter() {
        writeln!(o, "C {} {}", k, v).ok();
    }
    if !out_dir.is_empty() {
        let mut d: Vec<u64> = distinct.into_iter().collect();
        d.sort();
        let mut buf: Vec<u8> = Vec::with_capacity(d.len() * 8);
        for x in d {
            buf.extend_from_slice(&x.to_le_bytes());
        }
        std::fs::write(format!("{}/w{}-{}.distinct", out_dir, fi as u8, offset), buf).ok();
        let mut kv: Vec<(u64, u64, u64, u64)> = keys.into_iter().map(|(k, v)| (k.0, k.1, v.0, v.1)).collect();
        kv.sort();
        let mut buf: Vec<u8> = Vec::with_capacity(kv.len() * 32);
        for (a, b, h, r) in kv {
            buf.extend_from_slice(&a.to_le_bytes());
            buf.extend_from_slice(&b.to_le_bytes());
            buf.extend_from_slice(&h.to_le_bytes());
            buf.extend_from_slice(&r.to_le_bytes());
        }
        std::fs::write(format!("{}/w{}-{}.keys", out_dir, fi as u8, offset), buf).ok();
        let mut dg: Vec<u64> = digests.into_iter().collect();
        dg.sort();
        let mut buf: Vec<u8> = vec![];
        for x in dg {
            buf.extend_from_slice(&x.to_le_bytes());
        }
        std::fs::write(format!("{}/w{}-{}.digests", out_dir, fi as u8, offset), buf).ok();
    }
    writeln!(o, "DONE").ok();
    0
}

// ------------------------------------------------------------------------------------------ driver

#[derive(Default)]
struct Merged {
    runs: u64,
    evals: u64,
    sim_ms: u64,
    plies: u64,
    counters: BTreeMap<String, u64>,
    violations: Vec<(bool, u64, String, String)>, // (fi, idx, sig, detail)
    foreign: Vec<(bool, u64, String)>,
    crashes: Vec<(bool, u64)>,
    cross: Vec<String>,
    samples: Vec<(u64, String, String)>,
}

fn exe() -> String {
    std::env::current_exe().unwrap().to_string_lossy().into_owned()
}

fn spawn_batch(prop: usize, seed: u64, fi: bool, from: u64, to: u64, jobs: u64, out_dir: &str, m: &mut Merged) -> Result<(), String> {
    if to <= from {
        return Ok(());
    }
    let mut children = vec![];
    for w in 0..jobs {
        let child = Command::new(exe())
            .args([
                "worker",
                "--prop",
                &prop.to_string(),
                "--seed",
                &seed.to_string(),
                "--fi",
                if fi { "1" } else { "0" },
                "--from",
                &from.to_string(),
                "--to",
                &to.to_string(),
                "--stride",
                &jobs.to_string(),
                "--offset",
                &w.to_string(),
                "--out",
                out_dir,
            ])
            .stdout(Stdio::piped())
            .stderr(Stdio::inherit())
            .spawn()
            .map_err(|e| format!("cannot spawn worker: {}", e))?;
        children.push((w, child));
    }
    let mut handles = vec![];
    for (w, mut child) in children {
        let so = child.stdout.take().unwrap();
        handles.push(std::thread::spawn(move || {
            let rd = BufReader::new(so);
            let mut lines: Vec<String> = vec![];
            for l in rd.lines() {
                match l {
                    Ok(l) => lines.push(l),
                    Err(_) => break,
                }
            }
            let st = child.wait();
            (w, lines, st)
        }));
    }
    for h in handles {
        let (w, lines, st) = h.join().map_err(|_| "reader thread panicked".to_string())?;
        let mut last_b: Option<u64> = None;
        let mut done = false;
        for l in lines.iter() {
            let (tag, rest) = l.split_at(1.min(l.len()));
            let rest = rest.trim_start();
            match tag {
                "B" => last_b = rest.parse().ok(),
                "V" => {
                    let mut it = rest.splitn(2, ' ');
                    let idx: u64 = it.next().unwrap_or("0").parse().unwrap_or(0);
                    let r = it.next().unwrap_or("");
                    let mut jt = r.splitn(2, '\t');
                    let sig = jt.next().unwrap_or("").to_string();
                    let det = jt.next().unwrap_or("").to_string();
                    m.violations.push((fi, idx, sig, det));
                }
                "F" => {
                    let mut it = rest.splitn(2, ' ');
                    let idx: u64 = it.next().unwrap_or("0").parse().unwrap_or(0);
                    m.foreign.push((fi, idx, it.next().unwrap_or("").to_string()));
                }
                "X" => m.cross.push(format!("{} {}", fi as u8, rest)),
                "S" => {
                    let mut it = rest.splitn(3, '\t');
                    let idx: u64 = it.next().unwrap_or("0").parse().unwrap_or(0);
                    let cfg = it.next().unwrap_or("").to_string();
                    let sc = it.next().unwrap_or("").to_string();
                    m.samples.push((idx, cfg, sc));
                }
                "T" => {
                    let f: Vec<&str> = rest.split(' ').collect();
                    let g = |k: &str| -> u64 {
                        f.iter().position(|x| *x == k).and_then(|i| f.get(i + 1)).and_then(|s| s.parse().ok()).unwrap_or(0)
                    };
                    m.runs += g("runs");
                    m.evals += g("evals");
                    m.sim_ms += g("sim_ms");
                    m.plies += g("plies");
                }
                "C" => {
                    let mut it = rest.rsplitn(2, ' ');
                    let v: u64 = it.next().unwrap_or("0").parse().unwrap_or(0);
                    let k = it.next().unwrap_or("").to_string();
                    *m.counters.entry(k).or_insert(0) += v;
                }
                "D" => {
                    if l == "DONE" {
                        done = true;
                    }
                }
                _ => {}
            }
        }
        if !done {
            if let Ok(stt) = &st {
                if stt.code() == Some(3) {
                    return Err(format!("worker {} reported a hung run", w));
                }
            }
            // the worker died (abort inside a library call): the run it had begun is the culprit
            match last_b {
                Some(idx) => {
                    m.crashes.push((fi, idx));
                    // finish the rest of this worker's share in a fresh worker
                    let next = idx + jobs;
                    if next < to {
                        let mut sub = Merged::default();
                        respawn_share(prop, seed, fi, next, to, jobs, w, out_dir, &mut sub)?;
                        merge_into(m, sub);
                    }
                }
                None => return Err(format!("worker {} died before starting a run: {:?}", w, st)),
            }
        }
    }
    Ok(())
}

fn merge_into(m: &mut Merged, s: Merged) {
    m.runs += s.runs;
    m.evals += s.evals;
    m.sim_ms += s.sim_ms;
    m.plies += s.plies;
    for (k, v) in s.counters {
        *m.counters.entry(k).or_insert(0) += v;
    }
    m.violations.extend(s.violations);
    m.foreign.extend(s.foreign);
    m.crashes.extend(s.crashes);
    m.cross.extend(s.cross);
    m.samples.extend(s.samples);
}

/// Continue one worker's share after it died: same stride/offset, later start.
fn respawn_share(prop: usize, seed: u64, fi: bool, from: u64, to: u64, stride: u64, offset: u64, out_dir: &str, m: &mut Merged) -> Result<(), String> {
    let mut from = from;
    let mut guard = 0;
    while from < to {
        guard += 1;
        if guard > 3 {
            // the library dies again and again: the deaths recorded so far are reported as violations; the
            // rest of this share is abandoned rather than respawned thousands of times
            *m.counters.entry("share_abandoned_after_repeated_worker_deaths".into()).or_insert(0) += 1;
            return Ok(());
        }
        let out = Command::new(exe())
            .args([
                "worker", "--prop", &prop.to_string(), "--seed", &seed.to_string(), "--fi", if fi { "1" } else { "0" },
                "--from", &from.to_string(), "--to", &to.to_string(), "--stride", &stride.to_string(), "--offset",
                &offset.to_string(), "--out", &format!("{}/re{}-{}", out_dir, offset, from),
            ])
            .stderr(Stdio::inherit())
            .output()
            .map_err(|e| format!("cannot spawn worker: {}", e))?;
        std::fs::create_dir_all(format!("{}/re{}-{}", out_dir, offset, from)).ok();
        let text = String::from_utf8_lossy(&out.stdout).into_owned();
        let mut last_b = None;
        let mut done = false;
        for l in text.lines() {
            if let Some(r) = l.strip_prefix("B ") {
                last_b = r.parse::<u64>().ok();
            } else if let Some(r) = l.strip_prefix("V ") {
                let mut it = r.splitn(2, ' ');
                let idx: u64 = it.next().unwrap_or("0").parse().unwrap_or(0);
                let r2 = it.next().unwrap_or("");
                let mut jt = r2.splitn(2, '\t');
                m.violations.push((fi, idx, jt.next().unwrap_or("").to_string(), jt.next().unwrap_or("").to_string()));
            } else if let Some(r) = l.strip_prefix("T ") {
                let f: Vec<&str> = r.split(' ').collect();
                let g = |k: &str| -> u64 {
                    f.iter().position(|x| *x == k).and_then(|i| f.get(i + 1)).and_then(|s| s.parse().ok()).unwrap_or(0)
                };
                m.runs += g("runs");
                m.evals += g("evals");
                m.sim_ms += g("sim_ms");
                m.plies += g("plies");
            } else if let Some(r) = l.strip_prefix("C ") {
                let mut it = r.rsplitn(2, ' ');
                let v: u64 = it.next().unwrap_or("0").parse().unwrap_or(0);
                *m.counters.entry(it.next().unwrap_or("").to_string()).or_insert(0) += v;
            } else if l == "DONE" {
                done = true;
            }
        }
        if done {
            return Ok(());
        }
        match last_b {
            Some(idx) => {
                m.crashes.push((fi, idx));
                from = idx + stride;
            }
            None => return Err("respawned worker died before starting a run".into()),
        }
    }
    Ok(())
}

fn sig_file_name(prop: &str, sig: &str) -> String {
    let safe: String = sig.chars().map(|c| if c.is_ascii_alphanumeric() || c == '-' { c } else { '_' }).collect();
    let mut s = safe;
    s.truncate(100);
    format!("{}/replays/{}.json", VERIF, if s.starts_with(prop) { s } else { format!("{}_{}", prop, s) })
}

/// Replay a file in a FRESH process; Ok(signature) if it printed a VIOLATION line.
fn fresh_replay(path: &str) -> Result<Option<String>, String> {
    let out = Command::new(exe()).args(["replay", "--file", path, "--print-sig"]).output().map_err(|e| e.to_string())?;
    let text = String::from_utf8_lossy(&out.stdout).into_owned();
    for l in text.lines() {
        if let Some(s) = l.strip_prefix("SIG ") {
            return Ok(Some(s.to_string()));
        }
    }
    if !out.status.success() && (out.status.code().is_none() || out.status.code() == Some(101) || out.status.code() == Some(134)) {
        // killed by a signal (abort) or died of an uncaught panic inside a library call
        return Ok(Some("abort".into()));
    }
    Ok(None)
}

fn cmd_check(args: &[String]) -> i32 {
    quiet_panics();
    let t0 = std::time::Instant::now();
    let pid_s = arg(args, "--prop").unwrap_or("C10").to_string();
    let prop = prop_index(&pid_s);
    let tier = arg(args, "--tier").map(|s| s.to_string()).or_else(|| std::env::var("VERIF_TIER").ok()).unwrap_or_else(|| "quick".into());
    let tier = if tier == "thorough" { "thorough" } else { "quick" };
    let seed: u64 = arg(args, "--seed")
        .map(|s| s.to_string())
        .or_else(|| std::env::var("VERIF_SEED").ok())
        .and_then(|s| s.parse().ok())
        .unwrap_or(1);
    let jobs: u64 = arg(args, "--jobs")
        .map(|s| s.to_string())
        .or_else(|| std::env::var("VERIF_JOBS").ok())
        .and_then(|s| s.parse().ok())
        .unwrap_or(16)
        .max(1);
    let pm = match meta::meta(prop) {
        Some(m) => m,
        None => {
            eprintln!("HARNESS ERROR: property {} is not claimed (not applicable or unknown)", pid_s);
            return 2;
        }
    };
    println!("chess-dst check property={} tier={} VERIF_SEED={} jobs={}", pid_s, tier, seed, jobs);
    // 1. reference-model self-test
    if cmd_selftest(false) != 0 {
        return 2;
    }
    // 2. determinism audit: 64 run indices, twice, in different processes at different worker counts
    let audit_runs = 64u64;
    match determinism_audit(prop, seed, audit_runs, 1, 4) {
        Ok(true) => println!("determinism audit ok ({} runs x 2, 1 vs 4 workers)", audit_runs),
        Ok(false) => {
            eprintln!("HARNESS ERROR: determinism audit failed: event-log digests differ between two executions");
            return 2;
        }
        Err(e) if e == "WORKER_DIED" => {
            // a worker process died during the audit runs (abort or panic inside a library call): that is
            // not a statement about determinism; the batch below attributes the death to a run and a step
            println!("determinism audit inconclusive: a worker process died; the batch will attribute it");
        }
        Err(e) => {
            eprintln!("HARNESS ERROR: determinism audit could not run: {}", e);
            return 2;
        }
    }
    // 3. the batches
    let (ff, fi) = if tier == "thorough" { pm.thorough } else { pm.quick };
    let scale: f64 = std::env::var("VERIF_SCALE").ok().and_then(|s| s.parse().ok()).unwrap_or(1.0);
    let (ff, fi) = ((ff as f64 * scale) as u64, (fi as f64 * scale) as u64);
    let out_dir = format!("{}/scratch/{}-{}-{}", VERIF, pid_s, tier, std::process::id());
    let _ = std::fs::remove_dir_all(&out_dir);
    if std::fs::create_dir_all(&out_dir).is_err() {
        eprintln!("HARNESS ERROR: cannot create {}", out_dir);
        return 2;
    }
    let mut m = Merged::default();
    for (is_fi, n) in [(false, ff), (true, fi)] {
        if let Err(e) = spawn_batch(prop, seed, is_fi, 0, n, jobs, &out_dir, &mut m) {
            eprintln!("HARNESS ERROR: {}", e);
            return 2;
        }
    }
    let supp_n = {
        let (sq, st) = meta::supp_runs(prop);
        ((if tier == "thorough" { st } else { sq }) as f64 * scale) as u64
    };
    {
        let n = supp_n;
        if let Err(e) = spawn_batch(prop, seed, false, run::SUPP_BASE, run::SUPP_BASE + n, jobs, &out_dir, &mut m) {
            eprintln!("HARNESS ERROR: {}", e);
            return 2;
        }
    }
    // merge distinct sets / keys / digests
    let mut distinct: HashSet<u64> = HashSet::new();
    let mut digests: HashSet<u64> = HashSet::new();
    let mut keys: Vec<(u64, u64, u64, u64, u8)> = vec![];
    let mut stack = vec![std::path::PathBuf::from(&out_dir)];
    while let Some(d) = stack.pop() {
        if let Ok(rd) = std::fs::read_dir(&d) {
            let mut ents: Vec<_> = rd.flatten().map(|e| e.path()).collect();
            ents.sort();
            for p in ents {
                if p.is_dir() {
                    stack.push(p);
                    continue;
                }
                let name = p.file_name().unwrap().to_string_lossy().into_owned();
                let fi_flag: u8 = if name.starts_with("w1") { 1 } else { 0 };
                let data = std::fs::read(&p).unwrap_or_default();
                if name.ends_with(".distinct") {
                    for c in data.chunks_exact(8) {
                        distinct.insert(u64::from_le_bytes(c.try_into().unwrap()));
                    }
                } else if name.ends_with(".digests") {
                    for c in data.chunks_exact(8) {
                        digests.insert(u64::from_le_bytes(c.try_into().unwrap()));
                    }
                } else if name.ends_with(".keys") {
                    for c in data.chunks_exact(32) {
                        let g = |i: usize| u64::from_le_bytes(c[i * 8..i * 8 + 8].try_into().unwrap());
                        keys.push((g(0), g(1), g(2), g(3), fi_flag));
                    }
                }
            }
        }
    }
    let _ = std::fs::remove_dir_all(&out_dir);
    // census across workers (C08: one key, two hashes; C09: two keys, one hash)
    let mut census_viol: Vec<(String, (u8, u64, u64, u64), (u8, u64, u64, u64))> = vec![];
    let mut distinct_keys = 0u64;
    if !keys.is_empty() {
        keys.sort();
        let mut i = 0;
        while i < keys.len() {
            let mut j = i;
            while j + 1 < keys.len() && keys[j + 1].0 == keys[i].0 && keys[j + 1].1 == keys[i].1 {
                j += 1;
                if keys[j].2 != keys[i].2 && prop == 8 {
                    census_viol.push((
                        "C08/census/same_position_two_hashes".into(),
                        (keys[i].4, keys[i].3, keys[i].0, keys[i].1),
                        (keys[j].4, keys[j].3, keys[j].0, keys[j].1),
                    ));
                }
            }
            distinct_keys += 1;
            i = j + 1;
        }
        let mut byh: Vec<(u64, u64, u64, u64, u8)> = keys.iter().map(|k| (k.2, k.0, k.1, k.3, k.4)).collect();
        byh.sort();
        for w in byh.windows(2) {
            if w[0].0 == w[1].0 && (w[0].1, w[0].2) != (w[1].1, w[1].2) && prop == 9 {
                census_viol.push((
                    "C09/census/collision".into(),
                    (w[0].4, w[0].3, w[0].1, w[0].2),
                    (w[1].4, w[1].3, w[1].1, w[1].2),
                ));
            }
        }
    }
    // 4. violations: one minimised, fresh-process-verified replay per signature
    let known = read_known(&format!("{}/known_findings.txt", VERIF));
    let mut by_sig: BTreeMap<String, (bool, u64, String)> = BTreeMap::new();
    m.violations.sort();
    for (fi_flag, idx, sig, det) in m.violations.iter() {
        by_sig.entry(sig.clone()).or_insert((*fi_flag, *idx, det.clone()));
    }
    let mut sig_counts: BTreeMap<String, u64> = BTreeMap::new();
    for (_, _, sig, _) in m.violations.iter() {
        *sig_counts.entry(sig.clone()).or_insert(0) += 1;
    }
    let mut exit = 0;
    let mut known_hit: Vec<String> = vec![];
    let mut reported: Vec<(String, String)> = vec![];
    for (sig, (fi_flag, idx, _det)) in by_sig.iter() {
        let out = run_one(seed, prop, *fi_flag, *idx);
        let v = match &out.end {
            End::Violation(v) if v.sig == *sig => v.clone(),
            _ => {
                eprintln!("HARNESS ERROR: run {} of profile {} did not reproduce {} in the driver", idx, fi_flag, sig);
                return 2;
            }
        };
        let (min, st) = minimise(out.script.clone(), sig, armed_for(prop), 3000);
        let rv = replay(&min, armed_for(prop), false).violation.unwrap_or(v.clone());
        let path = sig_file_name(&pid_s, sig);
        let prov = format!(
            "{{\"verif_seed\":{},\"profile\":\"{}\",\"run_index\":{},\"run_seed\":\"{:#x}\",\"original_steps\":{},\"minimised_steps\":{},\"minimiser_replays\":{}}}",
            seed,
            if *fi_flag { "FI" } else { "FF" },
            idx,
            run_seed(seed, prop, *fi_flag, *idx),
            st.original,
            st.minimised,
            st.replays
        );
        if let Err(e) = write_replay(&path, &pid_s, &rv, &min, &prov, &out.cfg) {
            eprintln!("HARNESS ERROR: cannot write {}: {}", path, e);
            return 2;
        }
        match fresh_replay(&path) {
            Ok(Some(s)) if s == *sig => {}
            other => {
                eprintln!("HARNESS ERROR: fresh-process replay of {} gave {:?}, expected {}", path, other, sig);
                return 2;
            }
        }
        let kf = known.iter().find(|k| k.signature == *sig && k.status == "open");
        match kf {
            Some(k) => {
                println!("KNOWN-FINDING: property={} {} [{} occurrences; replay={}]", pid_s, k.what, sig_counts[sig], path);
                known_hit.push(sig.clone());
            }
            None => {
                println!("VIOLATION property={} replay={}", pid_s, path);
                println!("  signature: {}", sig);
                println!("  detail: {}", rv.detail);
                println!("  occurrences: {}  minimised: {} -> {} steps", sig_counts[sig], st.original, st.minimised);
                reported.push((sig.clone(), path));
                exit = 1;
            }
        }
    }
    // worker deaths: abort inside a library call (non-unwinding panic / signal)
    m.crashes.sort();
    m.crashes.dedup();
    let mut crash_sigs: HashSet<String> = HashSet::new();
    for (fi_flag, idx) in m.crashes.iter() {
        match handle_abort(prop, &pid_s, seed, *fi_flag, *idx) {
            Ok((sig, path)) => {
                if !crash_sigs.insert(sig.clone()) {
                    continue;
                }
                let kf = known.iter().find(|k| k.signature == sig && k.status == "open");
                match kf {
                    Some(k) => {
                        println!("KNOWN-FINDING: property={} {} [abort; replay={}]", pid_s, k.what, path);
                        known_hit.push(sig.clone());
                    }
                    None => {
                        println!("VIOLATION property={} replay={}", pid_s, path);
                        println!("  signature: {}", sig);
                        reported.push((sig, path));
                        exit = 1;
                    }
                }
            }
            Err(e) => {
                eprintln!("HARNESS ERROR: worker died in run {} (profile {}) and the abort could not be attributed: {}", idx, fi_flag, e);
                return 2;
            }
        }
    }
    // census violations
    for (sig, a, b) in census_viol.iter().take(3) {
        match census_replay(prop, &pid_s, seed, sig, *a, *b) {
            Ok(path) => {
                println!("VIOLATION property={} replay={}", pid_s, path);
                println!("  signature: {}", sig);
                reported.push((sig.clone(), path));
                exit = 1;
            }
            Err(e) => {
                if exit == 1 {
                    // other violations of this property are already reported with replays; the census hit is noted only
                    println!("  note: census finding {} not turned into a replay of its own ({})", sig, e);
                } else {
                    eprintln!("HARNESS ERROR: census finding {} could not be turned into a replay: {}", sig, e);
                    return 2;
                }
            }
        }
    }
    // each run that died inside a library call is one (failed) oracle evaluation; each distinct abort
    // signature one distinct non-trivial case
    m.evals += m.crashes.len() as u64;
    for sg in crash_sigs.iter() {
        distinct.insert(rng::fp64(sg.as_bytes()));
    }
    // 5. evidence
    let wall = t0.elapsed().as_secs_f64();
    let ev = evidence_json(&pid_s, prop, tier, seed, &pm, &m, distinct.len() as u64, digests.len() as u64, distinct_keys, wall, audit_runs, &known_hit, &reported, ff + supp_n, fi);
    let ev_path = format!("{}/evidence/{}.json", VERIF, pid_s);
    std::fs::create_dir_all(format!("{}/evidence", VERIF)).ok();
    if let Err(e) = std::fs::write(&ev_path, ev) {
        eprintln!("HARNESS ERROR: cannot write evidence {}: {}", ev_path, e);
        return 2;
    }
    {
        let mut seen: HashSet<String> = HashSet::new();
        for (fi_flag, idx, d) in m.foreign.iter() {
            let key: String = d.chars().take(40).collect();
            if seen.insert(key) && seen.len() <= 4 {
                println!("  note: run {} ({}) truncated: {}", idx, if *fi_flag { "FI" } else { "FF" }, d);
            }
        }
    }
    println!(
        "{}: runs={} (FF {} incl. {} supplementary + FI {}) evaluations={} distinct_nontrivial={} foreign_truncations={} wall={:.1}s -> {}",
        pid_s,
        m.runs,
        ff + supp_n,
        supp_n,
        fi,
        m.evals,
        distinct.len(),
        m.foreign.len(),
        wall,
        if exit == 0 { "held on everything explored" } else { "VIOLATION" }
    );
    if exit == 0 && (m.evals == 0 || distinct.len() < 2) {
        eprintln!("HARNESS ERROR: the batch evaluated nothing (evaluations={}, distinct={})", m.evals, distinct.len());
        return 2;
    }
    exit
}

fn determinism_audit(prop: usize, seed: u64, n: u64, ja: u64, jb: u64) -> Result<bool, String> {
    let collect = |jobs: u64| -> Result<BTreeMap<(u8, u64), String>, String> {
        let mut all = BTreeMap::new();
        for fi in [0u8, 1u8] {
            let mut kids = vec![];
            for w in 0..jobs {
                kids.push(
                    Command::new(exe())
                        .args([
                            "worker", "--prop", &prop.to_string(), "--seed", &seed.to_string(), "--fi", &fi.to_string(),
                            "--from", "1000000", "--to", &(1000000 + n / 2).to_string(), "--stride", &jobs.to_string(),
                            "--offset", &w.to_string(), "--digests", "1",
                        ])
                        .stdout(Stdio::piped())
                        .stderr(Stdio::null())
                        .spawn()
                        .map_err(|e| e.to_string())?,
                );
            }
            for k in kids {
                let out = k.wait_with_output().map_err(|e| e.to_string())?;
                if !out.status.success() {
                    return Err("WORKER_DIED".into());
                }
                for l in String::from_utf8_lossy(&out.stdout).lines() {
                    if let Some(r) = l.strip_prefix("E ") {
                        let mut it = r.split(' ');
                        let idx: u64 = it.next().unwrap_or("0").parse().unwrap_or(0);
                        all.insert((fi, idx), it.next().unwrap_or("").to_string());
                    }
                }
            }
        }
        Ok(all)
    };
    let a = collect(ja)?;
    let b = collect(jb)?;
    if a.len() as u64 != (n / 2) * 2 && a.is_empty() {
        return Err("audit produced no digests".into());
    }
    Ok(a == b && !a.is_empty())
}

fn cmd_audit(args: &[String]) -> i32 {
    let n = arg_u64(args, "--runs", 4096);
    let seed = arg_u64(args, "--seed", 1);
    let mut ok = true;
    for prop in meta::CLAIMED.iter() {
        let per = (n / meta::CLAIMED.len() as u64).max(16);
        match determinism_audit(*prop, seed, per, 1, 16) {
            Ok(true) => println!("audit C{:02}: {} runs x 2 (1 vs 16 workers) identical", prop, per),
            Ok(false) => {
                eprintln!("HARNESS ERROR: audit C{:02}: digests differ", prop);
                ok = false;
            }
            Err(e) => {
                eprintln!("HARNESS ERROR: audit C{:02}: {}", prop, e);
                ok = false;
            }
        }
    }
    if ok {
        0
    } else {
        2
    }
}

// ------------------------------------------------------------------------------------------ aborts

/// A worker died in run `idx`: re-execute it step by step in a child that prints each step before
/// executing it, take the printed prefix as the script, minimise with child processes.
fn handle_abort(prop: usize, pid_s: &str, seed: u64, fi: bool, idx: u64) -> Result<(String, String), String> {
    let out = Command::new(exe())
        .args(["trace", "--prop", &prop.to_string(), "--seed", &seed.to_string(), "--fi", if fi { "1" } else { "0" }, "--idx", &idx.to_string()])
        .stderr(Stdio::null())
        .output()
        .map_err(|e| e.to_string())?;
    if out.status.success() {
        return Err("the traced re-execution did not die".into());
    }
    let mut script: Vec<Step> = vec![];
    for l in String::from_utf8_lossy(&out.stdout).lines() {
        if let Some(r) = l.strip_prefix("STEP ") {
            if let Some(s) = Step::parse(r) {
                script.push(s);
            }
        }
    }
    if script.is_empty() {
        return Err("no steps traced".into());
    }
    let scratch = format!("{}/scratch/abort-{}", VERIF, std::process::id());
    std::fs::create_dir_all(&scratch).ok();
    let dies = |cand: &[Step]| -> bool {
        let p = format!("{}/cand.json", scratch);
        let v = Violation { prop: "C00", sig: "abort".into(), detail: String::new() };
        if write_replay(&p, pid_s, &v, cand, "{}", "").is_err() {
            return false;
        }
        match Command::new(exe()).args(["replay-raw", "--file", &p, "--prop", &prop.to_string()]).stdout(Stdio::null()).stderr(Stdio::null()).status() {
            Ok(st) => st.code().is_none() || st.code() == Some(134) || st.code() == Some(101),
            Err(_) => false,
        }
    };
    if !dies(&script) {
        let _ = std::fs::remove_dir_all(&scratch);
        return Err("the traced script does not abort when replayed".into());
    }
    // greedy single-step removal from the front (child processes are slow: bounded)
    let mut cur = script.clone();
    let mut budget = 250;
    let mut chunk = cur.len() / 2;
    while chunk >= 1 && budget > 0 {
        let mut i = 0;
        while i + chunk < cur.len() && budget > 0 {
            let mut cand = cur.clone();
            cand.drain(i..i + chunk);
            budget -= 1;
            if dies(&cand) {
                cur = cand;
            } else {
                i += chunk;
            }
        }
        chunk /= 2;
    }
    let _ = std::fs::remove_dir_all(&scratch);
    let last = cur.last().unwrap().to_line();
    let opname = last.split(' ').nth(3).unwrap_or("op").to_string();
    let disc = abort_discriminator(&cur);
    let sig = format!("C{:02}/abort_in_library_call/{}/{}", prop, opname, disc);
    let v = Violation {
        prop: "C00",
        sig: sig.clone(),
        detail: format!("the process aborted (non-unwinding panic or signal) while executing: {}", last),
    };
    let path = sig_file_name(pid_s, &sig);
    let prov = format!(
        "{{\"verif_seed\":{},\"profile\":\"{}\",\"run_index\":{},\"original_steps\":{},\"minimised_steps\":{},\"abort\":true}}",
        seed,
        if fi { "FI" } else { "FF" },
        idx,
        script.len(),
        cur.len()
    );
    write_replay(&path, pid_s, &v, &cur, &prov, "").map_err(|e| e.to_string())?;
    match fresh_replay(&path)? {
        Some(s) if s == "abort" => Ok((sig, path)),
        other => Err(format!("fresh replay gave {:?}", other)),
    }
}

fn abort_discriminator(script: &[Step]) -> String {
    use ops::Op;
    match &script.last().unwrap().op {
        Op::ValidateBuilder { placement, stm, .. } => {
            let _ = stm;
            let w = placement.bytes().filter(|b| b.is_ascii_uppercase()).count();
            let bl = placement.bytes().filter(|b| b.is_ascii_lowercase()).count();
            if w.max(bl) > 16 {
                "men_of_one_side>16".into()
            } else {
                "ordinary_material".into()
            }
        }
        Op::Validate { text } => {
            let pl = text.split(' ').next().unwrap_or("");
            let w = pl.bytes().filter(|b| b.is_ascii_uppercase()).count();
            let b = pl.bytes().filter(|b| b.is_ascii_lowercase()).count();
            if w > 16 || b > 16 {
                "men_of_one_side>16".into()
            } else {
                "ordinary_material".into()
            }
        }
        Op::Engine { e, .. } => format!("{:?}", e).split(|c: char| !c.is_ascii_alphanumeric()).next().unwrap_or("engine").to_string(),
        _ => "other".into(),
    }
}

fn cmd_trace(args: &[String]) -> i32 {
    quiet_panics();
    let prop = arg_u64(args, "--prop", 10) as usize;
    let seed = arg_u64(args, "--seed", 1);
    let fi = arg_u64(args, "--fi", 0) == 1;
    let idx = arg_u64(args, "--idx", 0);
    // first pass cannot be used (it dies); instead trace inside the world: print each step as it is issued
    std::env::set_var("CHESS_DST_TRACE", "1");
    let _ = run_one(seed, prop, fi, idx);
    0
}

fn cmd_replay_raw(args: &[String]) -> i32 {
    quiet_panics();
    let path = arg(args, "--file").unwrap_or("");
    let rf = match read_replay(path) {
        Ok(r) => r,
        Err(_) => return 2,
    };
    let prop = arg_u64(args, "--prop", prop_index(&rf.property) as u64) as usize;
    let r = replay(&rf.script, armed_for(prop), false);
    if r.violation.is_some() {
        1
    } else {
        0
    }
}

// ------------------------------------------------------------------------------------------ census

fn census_replay(prop: usize, pid_s: &str, seed: u64, sig: &str, a: (u8, u64, u64, u64), b: (u8, u64, u64, u64)) -> Result<String, String> {
    let locate = |x: (u8, u64, u64, u64)| -> Option<String> {
        let out = run_one(seed, prop, x.0 == 1, x.1);
        replay_watch(&out.script, armed_for(prop), (x.2, x.3))
    };
    let fa = locate(a).ok_or("position A not found by re-execution")?;
    let fb = locate(b).ok_or("position B not found by re-execution")?;
    let script = vec![Step { n: 1, t: 0, faults: vec![], op: ops::Op::Pair { a: fa, b: fb } }];
    let r = replay(&script, armed_for(prop), false);
    let v = r.violation.ok_or("the pair does not reproduce as a Pair op")?;
    let path = sig_file_name(pid_s, sig);
    write_replay(&path, pid_s, &v, &script, "{\"census\":true}", "").map_err(|e| e.to_string())?;
    Ok(path)
}

// ------------------------------------------------------------------------------------------ replay

fn cmd_replay(args: &[String]) -> i32 {
    quiet_panics();
    let path = match arg(args, "--file") {
        Some(p) => p,
        None => {
            eprintln!("usage: chess-dst replay --file <path>");
            return 2;
        }
    };
    let rf = match read_replay(path) {
        Ok(r) => r,
        Err(e) => {
            eprintln!("HARNESS ERROR: {}", e);
            return 2;
        }
    };
    let prop = prop_index(&rf.property);
    if args.iter().any(|a| a == "--print-sig") {
        // may abort: that is the expected outcome for abort replays
        let r = replay(&rf.script, armed_for(prop), false);
        if let Some(v) = r.violation {
            println!("SIG {}", v.sig);
            return 1;
        }
        return 0;
    }
    if rf.signature.contains("/abort_in_library_call/") {
        // run in a child so that the abort is observed, not suffered
        let st = Command::new(exe()).args(["replay-raw", "--file", path]).status();
        return match st {
            Ok(s) if s.code().is_none() || s.code() == Some(134) || s.code() == Some(101) => {
                println!("VIOLATION property={} replay={}", rf.property, path);
                println!("  signature: {}", rf.signature);
                println!("  the replay aborted the process inside a library call, as recorded");
                1
            }
            _ => {
                eprintln!("HARNESS ERROR: replay did not abort; expected {}", rf.signature);
                2
            }
        };
    }
    let r = replay(&rf.script, armed_for(prop), false);
    match r.violation {
        Some(v) if v.sig == rf.signature => {
            println!("VIOLATION property={} replay={}", rf.property, path);
            println!("  signature: {}", v.sig);
            println!("  detail: {}", v.detail);
            1
        }
        Some(v) => {
            eprintln!("HARNESS ERROR: replay produced {} but the file records {}", v.sig, rf.signature);
            2
        }
        None => {
            eprintln!("replay of {} produced no violation (the file records {}): the property holds on this script with the current tree", path, rf.signature);
            0
        }
    }
}

fn cmd_run1(args: &[String]) -> i32 {
    quiet_panics();
    let prop = arg_u64(args, "--prop", 10) as usize;
    let seed = arg_u64(args, "--seed", 1);
    let fi = arg_u64(args, "--fi", 0) == 1;
    let idx = arg_u64(args, "--idx", 0);
    let out = run_one(seed, prop, fi, idx);
    if args.iter().any(|a| a == "--script") {
        for s in out.script.iter() {
            println!("{}", s.to_line());
        }
    }
    println!("cfg {}", out.cfg);
    println!("steps {} evals {} distinct {} plies {} sim_ms {} digest {:016x}", out.script.len(), out.stats.evals, out.stats.distinct.len(), out.stats.plies, out.stats.sim_ms, out.digest);
    for (k, v) in out.stats.counters.iter() {
        println!("  {} {}", k, v);
    }
    match out.end {
        End::Clean => println!("clean"),
        End::Violation(v) => println!("VIOLATION {} :: {}", v.sig, v.detail),
        End::Foreign(d) => println!("foreign divergence: {}", d),
    }
    0
}

// ------------------------------------------------------------------------------------------ evidence

#[allow(clippy::too_many_arguments)]
fn evidence_json(
    pid_s: &str,
    prop: usize,
    tier: &str,
    seed: u64,
    pm: &meta::PropMeta,
    m: &Merged,
    distinct: u64,
    digests: u64,
    distinct_keys: u64,
    wall: f64,
    audit_runs: u64,
    known_hit: &[String],
    reported: &[(String, String)],
    ff: u64,
    fi: u64,
) -> String {
    let e = json::esc;
    let mut faults = vec![];
    let mut reach = vec![];
    let mut na = vec![];
    let mut other = vec![];
    let mut mv_vals = 0u64;
    let mut sq_vals = 0u64;
    for (k, v) in m.counters.iter() {
        if let Some(r) = k.strip_prefix("fault.") {
            faults.push(format!("{}: {}", e(r), v));
        } else if let Some(r) = k.strip_prefix("reach.") {
            reach.push(format!("{}: {}", e(r), v));
        } else if let Some(r) = k.strip_prefix("na.") {
            na.push(format!("{}: {}", e(r), v));
        } else if k.starts_with("mv.") {
            mv_vals += 1;
        } else if k.starts_with("sq.") {
            sq_vals += 1;
        } else {
            other.push(format!("{}: {}", e(k), v));
        }
    }
    let gaps: Vec<String> = pm.expected_reach.iter().filter(|r| m.counters.get(&format!("reach.{}", r)).copied().unwrap_or(0) == 0).map(|r| e(r)).collect();
    let mut samples = vec![];
    let mut ss = m.samples.clone();
    ss.sort();
    for (idx, cfg, sc) in ss.iter().take(3) {
        let lines: Vec<String> = sc.split('\u{1}').map(|l| e(l)).collect();
        samples.push(format!("{{\"run_index\": {}, \"config\": {}, \"first_steps\": [{}]}}", idx, if cfg.is_empty() { "{}".into() } else { cfg.clone() }, lines.join(", ")));
    }
    if samples.is_empty() {
        samples.push("\"(no run produced more than three steps)\"".into());
    }
    let mut extra = String::new();
    if prop == 13 {
        extra.push_str(&format!(
            "    \"distinct_move_values_roundtripped\": {},\n    \"distinct_squares_roundtripped\": {},\n    \"exhaustive_value_coverage\": {},\n",
            mv_vals,
            sq_vals,
            mv_vals == 20480 && sq_vals == 64
        ));
    }
    let runs_per_hour = if wall > 0.0 { (m.runs as f64 / wall * 3600.0) as u64 } else { 0 };
    format!(
        "{{\n  \"property_id\": {},\n  \"tier\": {},\n  \"seed\": {},\n  \"level\": \"exploration\",\n  \"coverage\": {{\n    \"evaluations\": {},\n    \"distinct_nontrivial\": {},\n    \"rule\": {},\n    \"samples\": [{}],\n    \"runs\": {},\n    \"runs_fault_free\": {},\n    \"runs_fault_injecting\": {},\n    \"first_run_seed\": \"{:#x}\",\n    \"runs_per_hour\": {},\n    \"simulated_seconds\": {:.1},\n    \"accepted_plies\": {},\n    \"faults_fired\": {{{}}},\n    \"reach\": {{{}}},\n    \"reach_gaps\": [{}],\n    \"not_asserted\": {{{}}},\n    \"other_counters\": {{{}}},\n{}    \"distinct_event_log_digests\": {},\n    \"distinct_position_keys\": {},\n    \"truncated_foreign_divergence\": {},\n    \"worker_aborts\": {},\n    \"components\": {{\"real\": {}, \"stub\": {}}},\n    \"known_findings_hit\": [{}],\n    \"violations_reported\": [{}],\n    \"determinism_audit\": {{\"runs\": {}, \"executions_each\": 2, \"worker_counts\": [1, 4], \"equal\": true}},\n    \"model_selftest\": \"perft of the reference model against published node counts: ok\",\n    \"exhaustive\": false\n  }},\n  \"assumptions\": [{}],\n  \"wall_s\": {:.2},\n  \"violations\": {}\n}}\n",
        e(pid_s),
        e(tier),
        seed,
        m.evals,
        distinct,
        e(pm.rule),
        samples.join(", "),
        m.runs,
        ff,
        fi,
        run_seed(seed, prop, false, 0),
        runs_per_hour,
        m.sim_ms as f64 / 1000.0,
        m.plies,
        faults.join(", "),
        reach.join(", "),
        gaps.join(", "),
        na.join(", "),
        other.join(", "),
        extra,
        digests,
        distinct_keys,
        m.foreign.len(),
        m.crashes.len(),
        json_list(pm.real),
        json_list(pm.stub),
        known_hit.iter().map(|s| e(s)).collect::<Vec<_>>().join(", "),
        reported.iter().map(|(s, p)| format!("{{\"signature\": {}, \"replay\": {}}}", e(s), e(p))).collect::<Vec<_>>().join(", "),
        audit_runs,
        pm.assumptions.iter().map(|s| e(s)).collect::<Vec<_>>().join(", "),
        wall,
        reported.len()
    )
}

fn json_list(v: &[&str]) -> String {
    format!("[{}]", v.iter().map(|s| json::esc(s)).collect::<Vec<_>>().join(", "))
}
