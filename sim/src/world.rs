//! The simulated world: discrete-event kernel, nodes' decision logic, transport / disk / process
//! faults, swarm configuration. It never touches the library: it emits ops, the executor applies
//! them to the real objects and to the model, and the world bases its next decisions on the model's
//! answers. Every random choice comes from the one run PRNG.

use crate::exec::*;
use crate::gen;
use crate::model::*;
use crate::ops::*;
use crate::oracle::Violation;
use crate::rng::Rng;
use std::cmp::Reverse;
use std::collections::BinaryHeap;

#[derive(Clone, Debug)]
pub enum Ev {
    Think(usize),
    Arrive(u32),
    CrashS,
    RestartS,
    CrashC(usize),
    RestartC(usize),
    PartStart(usize),
    PartEnd(usize),
    StallEnd(usize),
    Arbiter,
    Engine(usize),
    Rot,
    Spectate,
    Extra,
}

#[derive(Clone, Debug, PartialEq, Eq)]
pub enum TextFuzz {
    None,
    Fen,
    San,
    Uci,
    Siblings,
}

/// What a check runs: which nodes are alive, which fault kinds may fire, which workloads dominate.
#[derive(Clone, Debug)]
pub struct Profile {
    pub prop: usize,
    pub fi: bool,
    pub engines: bool,
    pub engine_kind: u8, // 0 = search (descend/null/gen), 1 = C14 programs, 2 = C19 table programs
    pub fuzz: TextFuzz,
    pub faults: &'static [&'static str],
    /// uniform, seeker, terminator, shuffler
    pub policy_w: [u32; 4],
    /// initial, corpus, random, endgame, pattern
    pub start_w: [u32; 5],
    pub enc: u8, // 0 = per-run random, 1 = UCI, 2 = SAN
    pub storm: bool,
    pub max_plies: u32,
    pub max_events: u32,
    pub sweep_every: u32,
    pub claim_probes: bool,
    /// supplementary run (index >= run::SUPP_BASE): the additions of round 9, kept out of the ordinary index range so that
    /// every earlier run is unchanged
    pub supp: bool,
}

/// multipliers of widely used multiplicative / finaliser hashes (Fibonacci, splitmix64, murmur3 fmix64, xorshift*, FxHash, PCG)
pub const MULT_CONSTS: [u64; 8] = [
    0x9E37_79B9_7F4A_7C15, 0xBF58_476D_1CE4_E5B9, 0x94D0_49BB_1331_11EB, 0xFF51_AFD7_ED55_8CCD, 0xC4CE_B9FE_1A85_EC53,
    0x2545_F491_4F6C_DD1D, 0x517C_C1B7_2722_0A95, 0x5851_F42D_4C95_7F2D,
];
/// inverse of an odd number modulo 2^64 (Newton iteration)
pub fn inv_mod_2_64(c: u64) -> u64 {
    let mut x = c;
    for _ in 0..6 {
        x = x.wrapping_mul(2u64.wrapping_sub(c.wrapping_mul(x)));
    }
    x
}

pub const ALL_NET: &[&str] = &[
    "N-DROP", "N-DUP", "N-DELAY", "N-PART", "N-BIT", "N-TRUNC", "N-SPLICE", "N-UTF8", "D-LOST", "D-TORN", "D-ROT",
    "P-CRASH-S", "P-CRASH-C", "P-STALL", "T-JUMP", "B-TURN", "B-RANDOM", "B-POST", "B-OTHER", "B-AMBIG",
];

pub fn profile_for(prop: usize, fi: bool) -> Profile {
    let mut p = Profile {
        prop,
        fi,
        engines: false,
        engine_kind: 0,
        fuzz: TextFuzz::None,
        faults: &[],
        policy_w: [50, 50, 0, 0],
        start_w: [10, 30, 30, 5, 25],
        enc: 0,
        storm: false,
        max_plies: 80,
        max_events: 900,
        sweep_every: 0,
        claim_probes: false,
        supp: false,
    };
    match prop {
        10 => {
            p.faults = ALL_NET;
            p.storm = true;
            p.policy_w = [60, 25, 10, 5];
            p.start_w = [15, 35, 20, 15, 15];
            p.max_plies = 70;
        }
        11 => {
            p.faults = &["N-DROP", "N-DUP", "N-DELAY", "P-CRASH-S", "D-LOST", "B-POST", "B-TURN"];
            p.policy_w = [5, 0, 0, 95];
            p.start_w = [10, 15, 15, 15, 45];
            p.max_plies = 260;
            p.max_events = 2600;
            p.claim_probes = true;
            p.enc = 1;
        }
        7 => {
            p.faults = &["N-BIT", "N-TRUNC", "N-SPLICE", "N-UTF8", "D-TORN", "D-ROT", "P-CRASH-S", "P-CRASH-C", "N-DROP"];
            p.fuzz = TextFuzz::Fen;
            p.max_plies = 30;
            p.max_events = 500;
        }
        12 => {
            p.faults = &["N-BIT", "N-TRUNC", "N-SPLICE", "N-UTF8", "N-DROP", "B-AMBIG", "B-TURN"];
            p.enc = 2;
            p.fuzz = TextFuzz::San;
            p.policy_w = [20, 80, 0, 0];
            p.max_plies = 50;
            p.max_events = 600;
        }
        13 => {
            p.faults = &["N-BIT", "N-TRUNC", "N-SPLICE", "N-UTF8", "D-TORN", "D-ROT", "B-RANDOM", "P-CRASH-S"];
            p.enc = 1;
            p.fuzz = TextFuzz::Uci;
            p.max_plies = 60;
        }
        6 => {
            p.faults = &["N-DROP", "P-CRASH-S", "P-CRASH-C", "D-LOST"];
            p.policy_w = [20, 80, 0, 0];
        }
        3 => {
            p.faults = &["N-DROP", "N-PART", "P-CRASH-S", "P-CRASH-C", "N-DELAY"];
            p.engines = true;
            p.policy_w = [40, 60, 0, 0];
        }
        5 => {
            p.faults = &["N-DROP", "P-CRASH-S", "P-CRASH-C", "D-LOST"];
            p.engines = true;
            p.max_plies = 160;
            p.max_events = 1500;
            p.policy_w = [50, 45, 5, 0];
        }
        8 => {
            p.faults = &["N-DROP", "N-PART", "P-CRASH-S", "P-CRASH-C", "N-DELAY", "N-DUP"];
            p.engines = true;
            p.fuzz = TextFuzz::Siblings;
            p.policy_w = [30, 20, 0, 50];
        }
        9 => {
            p.faults = &["N-BIT", "D-ROT", "P-CRASH-S", "N-SPLICE"];
            p.fuzz = TextFuzz::Siblings;
            p.engines = true;
            p.enc = 1;
            p.max_plies = 60;
        }
        14 => {
            p.engines = true;
            p.engine_kind = 1;
            p.policy_w = [20, 80, 0, 0];
            p.max_plies = 24;
            p.max_events = 700;
        }
        19 => {
            p.engines = true;
            p.engine_kind = 2;
            p.max_plies = 30;
            p.max_events = 700;
        }
        18 => {
            p.engines = true;
            p.policy_w = [30, 70, 0, 0];
            p.max_plies = 40;
        }
        2 => {
            p.faults = &["N-DROP", "N-DELAY"];
            p.engines = true;
            p.policy_w = [20, 80, 0, 0];
        }
        1 => {
            p.faults = &["B-RANDOM", "B-TURN", "N-BIT", "N-DROP"];
            p.enc = 1;
            p.engines = true;
            p.policy_w = [35, 65, 0, 0];
            p.start_w = [5, 25, 35, 5, 30];
            p.sweep_every = 40;
            p.max_plies = 60;
        }
        4 => {
            p.faults = &["N-DROP", "B-POST"];
            p.policy_w = [25, 15, 60, 0];
            p.start_w = [5, 20, 15, 35, 25];
            p.max_plies = 120;
            p.max_events = 1200;
        }
        17 => {
            p.policy_w = [40, 60, 0, 0];
            p.max_plies = 40;
            p.max_events = 500;
        }
        _ => {}
    }
    if !fi {
        p.faults = &[];
    }
    p
}

#[derive(Clone, Debug, Default)]
pub struct Personality {
    pub turn: bool,
    pub random: bool,
    pub post: bool,
    pub other: bool,
    pub ambig: bool,
}

#[derive(Clone, Debug)]
pub struct RunCfg {
    pub san: bool,
    pub via_builder: bool,
    pub p_drop: u64,
    pub p_dup: u64,
    pub p_corrupt: u64,
    pub p_delay: u64,
    pub p_crash_deliver: u64,
    pub crash_events: u32,
    pub client_crashes: u32,
    pub partitions: u32,
    pub rots: u32,
    pub flag_falls: bool,
    pub pers: [Personality; 2],
    pub policy: usize,
    pub w_offer: u32,
    pub w_accept: u32,
    pub w_resign: u32,
    pub w_claim: u32,
    pub tasks: usize,
    pub table_log2: u32,
    pub enabled: Vec<&'static str>,
    pub start_class: &'static str,
    pub max_plies: u32,
    pub long_then_mate: bool,
    /// reversible plies to shuffle before steering into mate (100, or beyond 150 in the marathon variant)
    pub long_threshold: u32,
}

pub enum End {
    Clean,
    Violation(Violation),
    Foreign(String),
}

pub struct RunOut {
    pub script: Vec<Step>,
    pub end: End,
    pub stats: RunStats,
    pub digest: u64,
    pub cfg: String,
}

pub struct World {
    pub rng: Rng,
    pub exec: Exec,
    pub prof: Profile,
    pub cfg: RunCfg,
    pub script: Vec<Step>,
    pub t: u64,
    seq: u64,
    heap: BinaryHeap<Reverse<(u64, u64)>>,
    evs: Vec<Option<Ev>>,
    n: u32,
    part: [bool; 2],
    stall: [u64; 2],
    pending_faults: Vec<String>,
    events: u32,
    quiet: bool,
    last_texts: Vec<String>,
    last_fens: Vec<String>,
    trace: bool,
    did_tree: bool,
    used_keys: Vec<u64>,
    /// planned tour (position key in which to play, move), next entry last
    tour: Vec<(Vec<u8>, Mv)>,
    tour_prev: Option<Vec<u8>>,
    tour_waits: u32,
}

/// A second, independent generator for late additions to the swarm configuration, so that adding a knob does
/// not shift every other draw of the run.
fn rng_for_cfg(seed: u64) -> Rng {
    Rng::new(seed ^ 0xC0F1_6C0F_16C0_F16C)
}
fn cfg_rng_chance(r: &mut Rng, den: u64) -> bool {
    r.chance(1, den)
}

fn has(list: &[&'static str], k: &str) -> bool {
    list.iter().any(|x| *x == k)
}

impl World {
    pub fn new(seed: u64, prof: Profile, armed: u32) -> World {
        let mut rng = Rng::new(seed);
        // swarm: a random subset of the profile's fault kinds is enabled in this run
        let mut enabled: Vec<&'static str> = vec![];
        for f in prof.faults.iter() {
            if rng.chance(2, 3) {
                enabled.push(*f);
            }
        }
        let on = |k: &str| has(&enabled, k);
        let mut pers = [Personality::default(), Personality::default()];
        for c in 0..2 {
            pers[c].turn = on("B-TURN") && rng.chance(1, 3);
            pers[c].random = on("B-RANDOM") && rng.chance(1, 2);
            pers[c].post = on("B-POST") && rng.chance(1, 2);
            pers[c].other = on("B-OTHER") && rng.chance(1, 3);
            pers[c].ambig = on("B-AMBIG") && rng.chance(1, 2);
        }
        let san = match prof.enc {
            1 => false,
            2 => true,
            _ => rng.chance(1, 2),
        };
        let policy = rng.weighted(&prof.policy_w);
        let storm = prof.storm && rng.chance(1, 3);
        let cfg = RunCfg {
            san,
            via_builder: rng.chance(1, 3),
            p_drop: if on("N-DROP") { rng.range(1, 12) } else { 0 },
            p_dup: if on("N-DUP") { rng.range(1, 10) } else { 0 },
            p_corrupt: if on("N-BIT") || on("N-TRUNC") || on("N-SPLICE") || on("N-UTF8") { rng.range(2, 25) } else { 0 },
            p_delay: if on("N-DELAY") { rng.range(2, 20) } else { 0 },
            p_crash_deliver: if on("P-CRASH-S") { rng.range(0, 4) } else { 0 },
            crash_events: if on("P-CRASH-S") { rng.range(0, 2) as u32 } else { 0 },
            client_crashes: if on("P-CRASH-C") { rng.range(0, 2) as u32 } else { 0 },
            partitions: if on("N-PART") { rng.range(0, 2) as u32 } else { 0 },
            rots: if on("D-ROT") { rng.range(0, 3) as u32 } else { 0 },
            flag_falls: on("T-JUMP") && rng.chance(1, 4),
            pers,
            policy,
            w_offer: if storm { 25 } else if prof.prop == 10 { 3 } else if prof.prop == 11 && rng.chance(1, 2) { 6 } else { 0 },
            w_accept: if storm { 20 } else if prof.prop == 10 { 2 } else { 0 },
            w_resign: if storm { 2 } else if prof.prop == 10 && rng.chance(1, 4) { 1 } else { 0 },
            w_claim: if storm { 8 } else if prof.prop == 10 { 3 } else if prof.prop == 11 && rng.chance(1, 3) { 1 } else { 0 },
            tasks: rng.range(1, 4) as usize,
            table_log2: *rng.pick(&[0u32, 0, 1, 1, 2, 2, 3, 3, 4, 5, 6, 8, 10, 12, 14]),
            enabled,
            start_class: "",
            max_plies: 0,
            long_then_mate: false,
            long_threshold: 100,
        };
        let mut cfg = cfg;
        cfg.max_plies = prof.max_plies;
        // a share of the C10 / C11 runs shuffles for more than a hundred reversible plies and is then steered
        // into mate or stalemate: results and claims on a game that ends late
        if (prof.prop == 10 && cfg_rng_chance(&mut rng_for_cfg(seed), 8)) || (prof.prop == 11 && cfg_rng_chance(&mut rng_for_cfg(seed), 4)) {
            cfg.long_then_mate = true;
            cfg.max_plies = 260;
            cfg.policy = 3;
            // marathon variant (C10 only): nobody claims, resigns or accepts, and the shuffling goes on beyond 150
            // reversible plies - a game is over only through an action or a position without moves, however long it lasts
            if prof.prop == 10 && cfg_rng_chance(&mut rng_for_cfg(seed ^ 0x75), 3) {
                cfg.long_threshold = 152 + (seed % 7) as u32;
                cfg.max_plies = 340;
                cfg.w_claim = 0;
                cfg.w_resign = 0;
                cfg.w_accept = 0;
            }
        }
        World {
            rng,
            exec: Exec::new(armed),
            prof,
            cfg,
            script: vec![],
            t: 0,
            seq: 0,
            heap: BinaryHeap::new(),
            evs: vec![],
            n: 0,
            part: [false; 2],
            stall: [0; 2],
            pending_faults: vec![],
            events: 0,
            quiet: false,
            last_texts: vec![],
            last_fens: vec![],
            trace: std::env::var("CHESS_DST_TRACE").is_ok(),
            did_tree: false,
            used_keys: vec![],
            tour: vec![],
            tour_prev: None,
            tour_waits: 0,
        }
    }

    fn on(&self, k: &str) -> bool {
        !self.quiet && has(&self.cfg.enabled, k)
    }

    fn sched(&mut self, dt: u64, ev: Ev) {
        self.seq += 1;
        self.evs.push(Some(ev));
        self.heap.push(Reverse((self.t + dt, self.evs.len() as u64 - 1)));
    }

    fn fault(&mut self, k: &'static str) {
        self.pending_faults.push(k.to_string());
        self.exec.stats.cnt(match k {
            "N-DROP" => "fault.N-DROP",
            "N-DUP" => "fault.N-DUP",
            "N-DELAY" => "fault.N-DELAY",
            "N-REORDER" => "fault.N-REORDER",
            "N-PART" => "fault.N-PART",
            "N-BIT" => "fault.N-BIT",
            "N-TRUNC" => "fault.N-TRUNC",
            "N-SPLICE" => "fault.N-SPLICE",
            "N-UTF8" => "fault.N-UTF8",
            "P-STALL" => "fault.P-STALL",
            "T-JUMP" => "fault.T-JUMP",
            "B-TURN" => "fault.B-TURN",
            "B-RANDOM" => "fault.B-RANDOM",
            "B-POST" => "fault.B-POST",
            "B-OTHER" => "fault.B-OTHER",
            "B-AMBIG" => "fault.B-AMBIG",
            "B-STALE" => "fault.B-STALE",
            _ => "fault.other",
        });
    }

    /// Execute one op now. Err(end) stops the run.
    fn op(&mut self, op: Op) -> Result<(), End> {
        self.n += 1;
        let step = Step { n: self.n, t: self.t, faults: std::mem::take(&mut self.pending_faults), op };
        if self.trace {
            // printed BEFORE execution so that an abort inside the library call leaves the culprit as the last line
            use std::io::Write;
            let so = std::io::stdout();
            let mut l = so.lock();
            let _ = writeln!(l, "STEP {}", step.to_line());
            let _ = l.flush();
        }
        let r = self.exec.step(&step);
        self.script.push(step);
        match r {
            Ok(Flow::Go) => {
                let emitted = self.exec.emitted.clone();
                for m in emitted {
                    self.route(m)?;
                }
                Ok(())
            }
            Ok(Flow::ForeignDivergence(d)) => Err(End::Foreign(d)),
            Err(v) => Err(End::Violation(v)),
        }
    }

    // ------------------------------------------------------------------------------ transport

    fn node_client(n: Node) -> Option<usize> {
        if let Node::Client(c) = n {
            Some(c)
        } else {
            None
        }
    }

    fn route(&mut self, m: MsgInfo) -> Result<(), End> {
        let cl = Self::node_client(m.from).or(Self::node_client(m.to));
        if let Some(c) = cl {
            if self.part[c] {
                self.fault("N-PART");
                return Ok(());
            }
        }
        if self.cfg.p_drop > 0 && !self.quiet && self.rng.below(100) < self.cfg.p_drop {
            self.fault("N-DROP");
            return Ok(());
        }
        if m.len > 0 && self.cfg.p_corrupt > 0 && !self.quiet && self.rng.below(100) < self.cfg.p_corrupt {
            self.corrupt_msg(&m)?;
        }
        let mut lat = self.rng.range(1, 20);
        if self.cfg.p_delay > 0 && !self.quiet && self.rng.below(100) < self.cfg.p_delay {
            lat += self.rng.range(50, 3000);
            self.fault("N-DELAY");
        }
        self.sched(lat, Ev::Arrive(m.id));
        if self.cfg.p_dup > 0 && !self.quiet && self.rng.below(100) < self.cfg.p_dup {
            let extra = self.rng.range(1, 400);
            self.fault("N-DUP");
            self.sched(lat + extra, Ev::Arrive(m.id));
        }
        Ok(())
    }

    fn corrupt_msg(&mut self, m: &MsgInfo) -> Result<(), End> {
        let mut kinds: Vec<&'static str> = vec![];
        for k in ["N-BIT", "N-TRUNC", "N-SPLICE", "N-UTF8"] {
            if self.on(k) {
                kinds.push(k);
            }
        }
        if kinds.is_empty() {
            return Ok(());
        }
        let k = *self.rng.pick(&kinds);
        let len = m.len;
        let how = match k {
            "N-BIT" => {
                // biased to the low bits that turn one valid character into another
                let bit = *self.rng.pick(&[0u8, 0, 1, 1, 2, 3, 4, 5, 5, 6]);
                Corr::Xor { at: self.rng.usize(len), mask: 1 << bit }
            }
            "N-TRUNC" => Corr::Trunc { len: self.rng.usize(len) },
            "N-SPLICE" => {
                let other = if self.last_texts.is_empty() {
                    "e2e4".to_string()
                } else {
                    self.rng.pick(&self.last_texts).clone()
                };
                Corr::Insert { at: self.rng.usize(len + 1), text: other }
            }
            _ => {
                let s = *self.rng.pick(&["é", "ß", "→", "♞", "𝄞", "\u{0}", "\u{7f}", "Ω"]);
                Corr::Insert { at: self.rng.usize(len + 1), text: s.to_string() }
            }
        };
        self.fault(k);
        self.op(Op::Corrupt { id: m.id, how })
    }

    // ------------------------------------------------------------------------------ start

    fn start(&mut self) -> Result<(), End> {
        let cls = if self.cfg.long_then_mate && self.rng.chance(3, 4) { 3 } else { self.rng.weighted(&self.prof.start_w) };
        let cls = if self.prof.supp && [8usize, 14].contains(&self.prof.prop) { 99 } else { cls };
        let (pos, name): (Pos, &'static str) = match cls {
            99 => {
                // supplementary runs (round 9 of DESIGN section 19)
                if self.prof.prop == 8 {
                    // an edge-file double push is still to be PLAYED, with enemy pawns on the squares a one-bit shift wraps to
                    gen::pattern_with(&mut self.rng, Some(25))
                } else {
                    // a double push that uncovers a slider check beside an enemy pawn; three times out of four the start
                    // position is the one right after the push (en-passant state set, side to move in check)
                    let (mut p, n) = gen::pattern_with(&mut self.rng, Some(22));
                    if self.rng.chance(3, 4) {
                        let pushes: Vec<Mv> = p.legal_moves().into_iter().filter(|m| p.is_double_push(*m) && p.make(*m).ep.is_some()).collect();
                        if !pushes.is_empty() {
                            let m = *self.rng.pick(&pushes);
                            p = p.make(m);
                        }
                    }
                    (p, n)
                }
            }
            0 => {
                // the move-number field selects the constructor the server uses (Game::new / new_with_board(Board::default()) / from_str)
                let mut p = Pos::initial();
                p.fullmove = 1 + self.rng.below(3) as u32;
                (p, "initial")
            }
            1 => (Pos::from_fen(gen::CORPUS[self.rng.usize(gen::CORPUS.len())]).unwrap(), "corpus"),
            2 => {
                let men = self.rng.range(3, 32) as usize;
                let ep = self.rng.chance(1, 2);
                let hb = self.rng.chance(1, 2);
                (gen::random_valid(&mut self.rng, men, ep, hb), "random_valid")
            }
            3 => (gen::endgame(&mut self.rng), "endgame"),
            _ => {
                // the long-game profile favours the rights-and-shufflers family (kind 8)
                let forced = if self.prof.prop == 11 && self.rng.chance(1, 2) {
                    Some(8)
                } else if [2usize, 4, 6, 11].contains(&self.prof.prop) && self.rng.chance(1, 6) {
                    // families added late (round 8 of DESIGN section 19); drawn only here so that the other profiles keep their runs
                    if self.prof.prop == 11 && self.rng.chance(1, 2) { Some(23) } else { Some(21 + self.rng.below(4)) }
                } else {
                    None
                };
                gen::pattern_with(&mut self.rng, forced)
            }
        };
        self.cfg.start_class = name;
        self.exec.stats.cnt_dyn(format!("start.{}", name));
        if pos.strict_validity_error().is_some() {
            return Ok(()); // corpus entries are all valid; defensive
        }
        if self.cfg.via_builder {
            let ep_file = if pos.ep.is_some() { file_of(pos.ep.unwrap()) as u8 } else { 8 };
            let mut castle = 0u8;
            for i in 0..4 {
                if pos.castle[i] {
                    castle |= 1 << i;
                }
            }
            {
                let order = self.rng.below(16) as u8;
                self.op(Op::StartBuilder { placement: squares_to_placement(&pos.sq), stm: pos.stm, castle, ep_file, order })
            }
        } else {
            // alternate between the two standard spellings of the en-passant field; a standard writer keeps real
            // move counters, which can be large (the library ignores them, but it has to read them)
            let mut pos = pos;
            if name != "initial" && self.rng.chance(1, 3) {
                pos.halfmove = *self.rng.pick(&[0u32, 1, 49, 99, 100, 101, 150, 255, 256, 300, 1000]);
                pos.fullmove = *self.rng.pick(&[1u32, 2, 40, 127, 128, 255, 256, 300, 1000, 5949, 65535, 65536]);
            }
            let text = if self.rng.chance(1, 2) { pos.fen() } else { pos.fen_ep_if_beside() };
            self.op(Op::StartFen { text })
        }
    }

    // ------------------------------------------------------------------------------ main loop

    pub fn run(mut self) -> RunOut {
        let end = match self.run_inner() {
            Ok(()) => End::Clean,
            Err(e) => e,
        };
        let mut stats = std::mem::take(&mut self.exec.stats);
        stats.sim_ms = self.t;
        let cfg = format!(
            "{{\"start\":\"{}\",\"enc\":\"{}\",\"via_builder\":{},\"policy\":{},\"faults\":{:?},\"tasks\":{},\"table_log2\":{}}}",
            self.cfg.start_class,
            if self.cfg.san { "SAN" } else { "UCI" },
            self.cfg.via_builder,
            self.cfg.policy,
            self.cfg.enabled,
            self.cfg.tasks,
            self.cfg.table_log2
        );
        RunOut { script: self.script, end, stats, digest: self.exec.digest.0, cfg }
    }

    fn run_inner(&mut self) -> Result<(), End> {
        self.start()?;
        if self.exec.srv.model.is_none() {
            return Ok(());
        }
        for c in 0..2 {
            let dt = self.rng.range(1, 30);
            self.sched(dt, Ev::Think(c));
        }
        self.sched(5, Ev::Spectate);
        if self.prof.engines {
            for c in 0..2 {
                let dt = self.rng.range(20, 80);
                self.sched(dt, Ev::Engine(c));
            }
        }
        if self.prof.fuzz != TextFuzz::None {
            self.sched(10, Ev::Extra);
        }
        self.sched(40, Ev::Arbiter);
        let horizon = 400 + self.prof.max_plies as u64 * 60;
        for _ in 0..self.cfg.crash_events {
            let at = self.rng.range(50, horizon);
            self.sched(at, Ev::CrashS);
        }
        for _ in 0..self.cfg.client_crashes {
            let at = self.rng.range(50, horizon);
            let c = self.rng.usize(2);
            self.sched(at, Ev::CrashC(c));
        }
        for _ in 0..self.cfg.partitions {
            let at = self.rng.range(50, horizon);
            let c = self.rng.usize(2);
            self.sched(at, Ev::PartStart(c));
        }
        for _ in 0..self.cfg.rots {
            let at = self.rng.range(50, horizon);
            self.sched(at, Ev::Rot);
        }
        let mut tail_started = false;
        loop {
            let over = self.exec.srv.model.as_ref().map_or(true, |g| !g.open());
            let plies = self.exec.stats.plies;
            let max_events = if self.cfg.long_threshold > 100 { 3600 } else if self.cfg.long_then_mate { 2600 } else { self.prof.max_events };
            let budget_out = self.events >= max_events || plies >= self.cfg.max_plies as u64;
            if (budget_out || self.heap.is_empty()) && !tail_started {
                // the quiescent tail: faults stop, partitions heal, crashed nodes restart, clients resync
                tail_started = true;
                self.quiesce()?;
                continue;
            }
            if tail_started && (self.events >= max_events + 120 || self.heap.is_empty()) {
                break;
            }
            if over && !tail_started && self.rng.chance(1, 5) {
                tail_started = true;
                self.quiesce()?;
                continue;
            }
            let Reverse((t, idx)) = match self.heap.pop() {
                Some(x) => x,
                None => break,
            };
            if t > self.t {
                self.t = t;
            }
            let ev = self.evs[idx as usize].take().unwrap();
            self.events += 1;
            self.handle(ev)?;
        }
        Ok(())
    }

    fn quiesce(&mut self) -> Result<(), End> {
        self.quiet = true;
        self.part = [false; 2];
        self.stall = [0; 2];
        self.op(Op::Quiesce)?;
        if !self.exec.srv.up {
            self.op(Op::RestartServer)?;
        }
        for c in 0..2 {
            if !self.exec.cl[c].up {
                self.op(Op::RestartClient { c })?;
            }
            self.op(Op::ClientAct { c, act: CAct::SnapReq })?;
        }
        // honest from here on
        self.cfg.pers = [Personality::default(), Personality::default()];
        self.cfg.w_offer = 0;
        self.cfg.w_accept = 0;
        self.cfg.w_resign = 0;
        self.cfg.flag_falls = false;
        if self.prof.claim_probes {
            self.op(Op::Probe(Probe::CanClaim))?;
        }
        Ok(())
    }

    fn handle(&mut self, ev: Ev) -> Result<(), End> {
        match ev {
            Ev::Think(c) => {
                if self.stall[c] > self.t {
                    let dt = self.stall[c] - self.t + 1;
                    self.sched(dt, Ev::Think(c));
                    return Ok(());
                }
                self.think(c)?;
                let dt = if self.quiet { self.rng.range(30, 60) } else { self.rng.range(5, 200) };
                self.sched(dt, Ev::Think(c));
                if !self.quiet && self.on("P-STALL") && self.rng.chance(1, 60) {
                    self.stall[c] = self.t + self.rng.range(200, 3000);
                    self.fault("P-STALL");
                }
            }
            Ev::Arrive(id) => {
                let mut crash = None;
                let to_server = self.exec.msgs.get(&id).map_or(false, |m| m.to == Node::Server);
                if to_server && self.cfg.p_crash_deliver > 0 && !self.quiet && self.rng.below(100) < self.cfg.p_crash_deliver {
                    crash = Some(match self.rng.below(4) {
                        0 => CrashPoint::BeforeAppend,
                        1 => {
                            if self.on("D-LOST") || !self.on("D-TORN") {
                                CrashPoint::AppendedLost
                            } else {
                                CrashPoint::AppendedTorn { keep: self.rng.range(1, 24) as usize }
                            }
                        }
                        2 => {
                            if self.on("D-TORN") {
                                CrashPoint::AppendedTorn { keep: self.rng.range(1, 24) as usize }
                            } else {
                                CrashPoint::AppendedLost
                            }
                        }
                        _ => CrashPoint::SyncedNoBroadcast,
                    });
                }
                let was_up = self.exec.srv.up;
                self.op(Op::Deliver { id, crash })?;
                if was_up && !self.exec.srv.up {
                    let dt = self.rng.range(20, 800);
                    self.sched(dt, Ev::RestartS);
                }
            }
            Ev::CrashS => {
                if self.exec.srv.up && !self.quiet {
                    self.op(Op::CrashServer)?;
                    let dt = self.rng.range(20, 800);
                    self.sched(dt, Ev::RestartS);
                }
            }
            Ev::RestartS => {
                if !self.exec.srv.up {
                    self.op(Op::RestartServer)?;
                }
            }
            Ev::CrashC(c) => {
                if self.exec.cl[c].up && !self.quiet {
                    self.op(Op::CrashClient { c })?;
                    let dt = self.rng.range(20, 600);
                    self.sched(dt, Ev::RestartC(c));
                }
            }
            Ev::RestartC(c) => {
                if !self.exec.cl[c].up {
                    self.op(Op::RestartClient { c })?;
                    self.op(Op::ClientAct { c, act: CAct::SnapReq })?;
                }
            }
            Ev::PartStart(c) => {
                if !self.quiet {
                    self.part[c] = true;
                    let dt = self.rng.range(100, 2500);
                    self.sched(dt, Ev::PartEnd(c));
                }
            }
            Ev::PartEnd(c) => {
                self.part[c] = false;
            }
            Ev::StallEnd(_) => {}
            Ev::Rot => {
                let nrec = self.exec.srv.journal.len();
                if nrec > 0 && !self.quiet {
                    // records after START are the usual victims; START itself rarely
                    let rec = if nrec > 1 && self.rng.chance(9, 10) { self.rng.range(1, nrec as u64 - 1) as usize } else { 0 };
                    let len = self.exec.srv.journal[rec].len();
                    if len > 0 {
                        // aim at the action text / fen rather than the keyword
                        let lo = if rec == 0 { 6 } else { 4 };
                        let at = self.rng.range(lo.min(len as u64 - 1), len as u64 - 1) as usize;
                        let bit = *self.rng.pick(&[0u8, 0, 1, 1, 2, 3, 4, 5]);
                        self.pending_faults.push("D-ROT".into());
                        self.op(Op::DiskRot { rec, at, mask: 1 << bit })?;
                    }
                }
            }
            Ev::Arbiter => {
                self.arbiter()?;
                let dt = self.rng.range(20, 150);
                self.sched(dt, Ev::Arbiter);
            }
            Ev::Engine(c) => {
                self.engine(c)?;
                let dt = self.rng.range(30, 200);
                self.sched(dt, Ev::Engine(c));
            }
            Ev::Spectate => {
                // the spectator is a replica that is only ever built from text
                self.op(Op::ClientAct { c: 2, act: CAct::SnapReq })?;
                let dt = self.rng.range(100, 600);
                self.sched(dt, Ev::Spectate);
            }
            Ev::Extra => {
                self.extra()?;
                let dt = self.rng.range(5, 60);
                self.sched(dt, Ev::Extra);
            }
        }
        Ok(())
    }

    // ------------------------------------------------------------------------------ arbiter

    fn arbiter(&mut self) -> Result<(), End> {
        let (clock, occ, open) = match self.exec.srv.model.as_ref() {
            Some(g) => (g.clock, g.occurrences(false), g.open()),
            None => return Ok(()),
        };
        if self.prof.claim_probes {
            let near = (96..=103).contains(&clock) || occ >= 2;
            if near || self.rng.chance(1, 4) {
                self.op(Op::Probe(Probe::CanClaim))?;
            }
            if (clock >= 100 || occ >= 3) && self.rng.chance(1, 40) {
                self.op(Op::ArbiterAct { act: CAct::Claim })?;
            }
        }
        if self.cfg.long_then_mate && !open && self.rng.chance(1, 2) {
            self.op(Op::ArbiterAct { act: CAct::Claim })?;
        }
        if self.cfg.flag_falls && !self.quiet && open && self.rng.chance(1, 40) {
            self.fault("T-JUMP");
            let c = if self.rng.chance(1, 2) { Col::W } else { Col::B };
            self.op(Op::ArbiterAct { act: CAct::Resign(c) })?;
        }
        if self.prof.sweep_every > 0 && self.rng.below(self.prof.sweep_every as u64) == 0 {
            self.op(Op::Probe(Probe::Sweep))?;
        }
        if self.prof.prop == 1 && self.rng.chance(1, 3) {
            // arbitrary triples at the legality query: neighbours of legal moves and uniform values
            let m = Mv::new(self.rng.below(64) as u8, self.rng.below(64) as u8, *self.rng.pick(&crate::oracle::ALL_PROMOS));
            self.op(Op::Probe(Probe::Legal(m)))?;
        }
        Ok(())
    }

    // ------------------------------------------------------------------------------ clients

    /// The move of the game proper (not of an engine's search): a planned tour first - two men of one side change
    /// places while the other side marks time, then back, and again - otherwise the run's policy.
    fn choose_game_move(&mut self, pos: &Pos, lm: &[Mv], my_turn: bool) -> Option<Mv> {
        if let Some((k, m)) = self.tour.last().cloned() {
            let srv = self.exec.srv.model.as_ref().map(|g| g.pos.key_beside());
            let here = pos.key_beside();
            if srv.as_ref() == Some(&k) {
                if my_turn && here == k && lm.contains(&m) && !self.rng.chance(1, 200) {
                    self.tour.pop();
                    self.tour_prev = Some(k);
                    self.tour_waits = 0;
                    if self.tour.is_empty() {
                        self.exec.stats.cnt("reach.tour_completed");
                    }
                    return Some(m);
                }
            } else if srv.is_some() && srv == self.tour_prev {
                // the last tour move is still on its way to the server
            } else {
                self.exec.stats.cnt("reach.tour_abandoned");
                self.tour.clear();
                return Some(self.choose_move(pos, lm));
            }
            // this replica is behind, or it is the other side's turn: wait (not for ever - messages get lost)
            self.tour_waits += 1;
            if self.tour_waits > 12 {
                self.exec.stats.cnt("reach.tour_abandoned");
                self.tour.clear();
                return Some(self.choose_move(pos, lm));
            }
            return None;
        }
        // at the very start of a game a tour is likely: it brings the START position back (whose first occurrence
        // may carry state - en-passant possibility, rights - that its recurrences lack or share)
        let at_start = self.exec.srv.model.as_ref().map_or(false, |g| g.history.len() <= 1);
        // (always when the start position carries en-passant state: its recurrences cannot have it)
        let den = if at_start && pos.ep.is_some() { 1 } else if at_start { 2 } else { 12 };
        if my_turn && self.cfg.policy == 3 && !self.cfg.long_then_mate && self.rng.chance(1, den) {
            let plan = if at_start && self.rng.chance(2, 3) { self.plan_out_and_back(pos) } else { self.plan_tour(pos) };
            if let Some(t) = plan {
                self.tour = t;
                let (k, m) = self.tour.pop().unwrap();
                self.tour_prev = Some(k);
                self.tour_waits = 0;
                return Some(m);
            }
        }
        Some(self.choose_move(pos, lm))
    }

    fn choose_move(&mut self, pos: &Pos, lm: &[Mv]) -> Mv {
        let mut policy = if self.rng.chance(1, 8) { 0 } else { self.cfg.policy };
        if self.cfg.long_then_mate {
            let clock = self.exec.srv.model.as_ref().map_or(0, |g| g.clock);
            policy = if clock >= self.cfg.long_threshold { 2 } else { 3 };
        }
        match policy {
            1 => {
                // special-move seeker
                let w: Vec<u32> = lm
                    .iter()
                    .map(|m| {
                        if pos.is_ep(*m) {
                            60
                        } else if pos.is_castle(*m) {
                            25
                        } else if m.promo.is_some() {
                            12
                        } else if pos.is_double_push(*m) && pos.make(*m).ep_pawn_beside() {
                            25
                        } else if [0u8, 7, 56, 63].contains(&m.to) && pos.sq[m.to as usize].is_some() {
                            15
                        } else if pos.pinned().contains(&m.from) {
                            8
                        } else if pos.make(*m).checkers().len() >= 2 {
                            40
                        } else if pos.is_capture(*m) {
                            3
                        } else if pos.make(*m).in_check() {
                            5
                        } else {
                            1
                        }
                    })
                    .collect();
                lm[self.rng.weighted(&w)]
            }
            2 => {
                // terminator: play mate or stalemate when one ply away
                let mut fin: Vec<Mv> = vec![];
                for m in lm {
                    if pos.make(*m).legal_moves().is_empty() {
                        fin.push(*m);
                    }
                }
                if !fin.is_empty() && self.rng.chance(9, 10) {
                    *self.rng.pick(&fin)
                } else {
                    // head towards fewer enemy replies
                    let mut best = lm[0];
                    let mut bestn = usize::MAX;
                    for m in lm {
                        let n = pos.make(*m).legal_moves().len() + self.rng.usize(4);
                        if n < bestn {
                            bestn = n;
                            best = *m;
                        }
                    }
                    if self.rng.chance(2, 3) {
                        best
                    } else {
                        *self.rng.pick(lm)
                    }
                }
            }
            3 => {
                // shuffler: reversible moves, strong preference for positions seen before; sometimes burns a right
                let rev: Vec<Mv> = lm
                    .iter()
                    .cloned()
                    .filter(|m| !pos.is_capture(*m) && !matches!(pos.sq[m.from as usize], Some((Kind::P, _))))
                    .collect();
                if rev.is_empty() {
                    return *self.rng.pick(lm);
                }
                if self.rng.chance(1, 40) {
                    // now and then a pawn move (double pushes preferred): starts a new fifty-move window
                    let pm: Vec<Mv> = lm.iter().cloned().filter(|m| pos.is_double_push(*m)).collect();
                    if !pm.is_empty() {
                        return *self.rng.pick(&pm);
                    }
                }
                let keep: Vec<Mv> = rev.iter().cloned().filter(|m| pos.make(*m).castle == pos.castle).collect();
                let burn: Vec<Mv> = rev.iter().cloned().filter(|m| pos.make(*m).castle != pos.castle).collect();
                if !burn.is_empty() && (keep.is_empty() || self.rng.chance(1, 25)) {
                    return *self.rng.pick(&burn);
                }
                let pool = if keep.is_empty() { &rev } else { &keep };
                if self.rng.chance(3, 5) {
                    if let Some(g) = self.exec.srv.model.as_ref() {
                        let seen: Vec<Mv> = pool
                            .iter()
                            .cloned()
                            .filter(|m| {
                                let k = pos.make(*m).key_beside();
                                g.history.iter().any(|h| h.0 == k)
                            })
                            .collect();
                        if !seen.is_empty() {
                            return *self.rng.pick(&seen);
                        }
                    }
                }
                *self.rng.pick(pool)
            }
            _ => *self.rng.pick(lm),
        }
    }

    /// Shortest way (model search) to the position in which the men on `a` and `b` (same side `pc`) have changed
    /// places while the other side moves one man to and fro between `m0` and `m1`; nothing is captured, no pawn
    /// moves, no right is lost, so every position on the way belongs to one repetition window.
    fn swap_path(pos: &Pos, pc: Col, a: Sq, b: Sq, m0: Sq, m1: Sq) -> Option<Vec<(Vec<u8>, Mv)>> {
        struct Node {
            p: Pos,
            a: Sq,
            b: Sq,
            m: Sq,
            parent: usize,
            mv: Option<Mv>,
            depth: u32,
        }
        let mut nodes = vec![Node { p: pos.clone(), a, b, m: m0, parent: 0, mv: None, depth: 0 }];
        let mut seen: std::collections::HashSet<(Vec<u8>, Sq, Sq)> = std::collections::HashSet::new();
        seen.insert((pos.key_beside(), a, b));
        let mut i = 0;
        while i < nodes.len() && nodes.len() < 2500 {
            let (p, na, nb, nm, depth) = (nodes[i].p.clone(), nodes[i].a, nodes[i].b, nodes[i].m, nodes[i].depth);
            if depth > 0 && p.stm == pos.stm && na == b && nb == a && nm == m0 {
                let mut out = vec![];
                let mut j = i;
                while let Some(mv) = nodes[j].mv {
                    let par = nodes[j].parent;
                    out.push((nodes[par].p.key_beside(), mv));
                    j = par;
                }
                out.reverse();
                return Some(out);
            }
            if depth < 18 {
                for mv in p.legal_moves() {
                    if p.is_capture(mv) || p.is_castle(mv) || mv.promo.is_some() {
                        continue;
                    }
                    let ok = if p.stm == pc { mv.from == na || mv.from == nb } else { mv.from == nm && mv.to == if nm == m0 { m1 } else { m0 } };
                    if !ok {
                        continue;
                    }
                    let q = p.make(mv);
                    if q.castle != p.castle {
                        continue;
                    }
                    let (mut qa, mut qb, mut qm) = (na, nb, nm);
                    if p.stm == pc {
                        if mv.from == na {
                            qa = mv.to
                        } else {
                            qb = mv.to
                        }
                    } else {
                        qm = mv.to;
                    }
                    if seen.insert((q.key_beside(), qa, qb)) {
                        nodes.push(Node { p: q, a: qa, b: qb, m: qm, parent: i, mv: Some(mv), depth: depth + 1 });
                    }
                }
            }
            i += 1;
        }
        None
    }

    /// The shortest way back: each side makes a reversible move and takes it back, two or three times over.
    fn plan_out_and_back(&mut self, pos: &Pos) -> Option<Vec<(Vec<u8>, Mv)>> {
        let quiet = |p: &Pos| -> Vec<Mv> {
            p.legal_moves()
                .into_iter()
                .filter(|m| !matches!(p.sq[m.from as usize], Some((Kind::P, _))) && !p.is_capture(*m) && !p.is_castle(*m) && p.make(*m).castle == p.castle)
                .collect()
        };
        let mut all = vec![];
        let mut p = pos.clone();
        let rounds = 2 + self.rng.below(2);
        let q1 = quiet(&p);
        if q1.is_empty() {
            return None;
        }
        let m1 = *self.rng.pick(&q1);
        let q2 = quiet(&p.make(m1));
        if q2.is_empty() {
            return None;
        }
        let m2 = *self.rng.pick(&q2);
        for _ in 0..rounds {
            for m in [m1, m2, Mv::new(m1.to, m1.from, None), Mv::new(m2.to, m2.from, None)] {
                if !p.is_legal(m) || p.is_capture(m) {
                    return None;
                }
                all.push((p.key_beside(), m));
                p = p.make(m);
            }
        }
        self.exec.stats.cnt("reach.tour_planned");
        self.exec.stats.cnt("reach.tour_out_and_back");
        all.reverse();
        Some(all)
    }

    fn plan_tour(&mut self, pos: &Pos) -> Option<Vec<(Vec<u8>, Mv)>> {
        let pc = if self.rng.chance(1, 2) { Col::W } else { Col::B };
        let men: Vec<Sq> = (0..64u8).filter(|s| matches!(pos.sq[*s as usize], Some((k, c)) if c == pc && k != Kind::P)).collect();
        if men.len() < 2 {
            return None;
        }
        let a = *self.rng.pick(&men);
        let b = *self.rng.pick(&men);
        if a == b {
            return None;
        }
        // the other side's marker: a reversible move of one of its men, found in the position where it is to move
        let probe = if pos.stm == pc {
            let first: Vec<Mv> = pos.legal_moves().into_iter().filter(|m| (m.from == a || m.from == b) && !pos.is_capture(*m) && !pos.is_castle(*m)).collect();
            if first.is_empty() {
                return None;
            }
            pos.make(*self.rng.pick(&first))
        } else {
            pos.clone()
        };
        let marks: Vec<Mv> = probe
            .legal_moves()
            .into_iter()
            .filter(|m| !matches!(probe.sq[m.from as usize], Some((Kind::P, _))) && !probe.is_capture(*m) && !probe.is_castle(*m) && probe.make(*m).castle == probe.castle)
            .collect();
        if marks.is_empty() {
            return None;
        }
        let mk = *self.rng.pick(&marks);
        let leg1 = Self::swap_path(pos, pc, a, b, mk.from, mk.to)?;
        // the position after the first leg
        let mut q = pos.clone();
        for (_, m) in &leg1 {
            q = q.make(*m);
        }
        let leg2 = Self::swap_path(&q, pc, a, b, mk.from, mk.to)?;
        let same_kind = pos.sq[a as usize].map(|x| x.0) == pos.sq[b as usize].map(|x| x.0);
        self.exec.stats.cnt("reach.tour_planned");
        self.exec.stats.cnt(if same_kind { "reach.tour_swaps_two_identical_men" } else { "reach.tour_swaps_two_different_men" });
        let mut all = vec![];
        let rounds = 1 + self.rng.below(2);
        for _ in 0..=rounds {
            all.extend(leg1.iter().cloned());
            all.extend(leg2.iter().cloned());
        }
        all.reverse(); // next entry last
        Some(all)
    }

    fn think(&mut self, c: usize) -> Result<(), End> {
        let col = if c == 0 { Col::W } else { Col::B };
        if !self.exec.cl[c].up {
            return Ok(());
        }
        let pers = self.cfg.pers[c].clone();
        let (pos, over) = match &self.exec.cl[c].pos {
            None => {
                if self.rng.chance(1, 2) {
                    self.op(Op::ClientAct { c, act: CAct::SnapReq })?;
                }
                return Ok(());
            }
            Some(p) => (p.clone(), self.exec.cl[c].over),
        };
        if over && !pers.post {
            if self.rng.chance(1, 6) {
                self.op(Op::ClientAct { c, act: CAct::SnapReq })?;
            }
            return Ok(());
        }
        if over {
            self.fault("B-POST");
        }
        let my_turn = pos.stm == col;
        let w_move = if my_turn || pers.turn { 100 } else { 0 };
        let w = [w_move, self.cfg.w_offer, self.cfg.w_accept, self.cfg.w_resign, self.cfg.w_claim, 1];
        let kind = self.rng.weighted(&w);
        let act = match kind {
            0 => {
                if !my_turn {
                    self.fault("B-TURN");
                }
                if pers.random && self.rng.chance(1, 6) {
                    // a value handed over through the API: source and destination of a legal move, promotion field Pawn or King
                    self.fault("B-RANDOM");
                    let lm = pos.legal_moves();
                    if lm.is_empty() {
                        return Ok(());
                    }
                    let base = *self.rng.pick(&lm);
                    let k = if self.rng.chance(1, 2) { Kind::P } else { Kind::K };
                    return self.op(Op::ClientAct { c, act: CAct::Move { mv: Some(Mv::new(base.from, base.to, Some(k))), enc: Enc::Api } });
                }
                if pers.random && self.rng.chance(1, 3) {
                    self.fault("B-RANDOM");
                    let m = Mv::new(self.rng.below(64) as u8, self.rng.below(64) as u8, *self.rng.pick(&crate::oracle::ALL_PROMOS));
                    if self.cfg.san {
                        CAct::Move { mv: None, enc: Enc::Raw { san: true, text: m.uci() } }
                    } else {
                        CAct::Move { mv: Some(m), enc: Enc::Uci }
                    }
                } else {
                    let lm = pos.legal_moves();
                    if lm.is_empty() {
                        return Ok(());
                    }
                    let m = match self.choose_game_move(&pos, &lm, my_turn) {
                        Some(m) => m,
                        None => return Ok(()),
                    };
                    if self.cfg.san {
                        let sp = san_spellings(&pos, m);
                        let mut s = self.rng.pick(&sp).clone();
                        if pers.ambig && self.rng.chance(1, 3) {
                            let minimal = san_minimal(&pos, m);
                            if (minimal.file_hint.is_some() || minimal.rank_hint.is_some()) && minimal.piece != Kind::P {
                                s = minimal;
                                s.file_hint = None;
                                s.rank_hint = None;
                                self.fault("B-AMBIG");
                            }
                        }
                        self.last_texts.push(s.text());
                        CAct::Move { mv: Some(m), enc: Enc::San(s) }
                    } else {
                        self.last_texts.push(m.uci());
                        CAct::Move { mv: Some(m), enc: Enc::Uci }
                    }
                }
            }
            1 => {
                let by = if pers.other && self.rng.chance(1, 2) {
                    self.fault("B-OTHER");
                    col.other()
                } else {
                    col
                };
                CAct::Offer(by)
            }
            2 => CAct::Accept,
            3 => {
                let by = if pers.other && self.rng.chance(1, 2) {
                    self.fault("B-OTHER");
                    col.other()
                } else {
                    col
                };
                CAct::Resign(by)
            }
            4 => CAct::Claim,
            _ => CAct::SnapReq,
        };
        if self.last_texts.len() > 32 {
            self.last_texts.drain(0..16);
        }
        self.op(Op::ClientAct { c, act })
    }

    // ------------------------------------------------------------------------------ engine tasks

    fn engine(&mut self, c: usize) -> Result<(), End> {
        if self.exec.eng[c].base.is_none() {
            return Ok(());
        }
        let task = self.rng.usize(self.cfg.tasks);
        match self.prof.engine_kind {
            1 => self.engine_c14(c, task),
            2 => self.engine_c19(c, task),
            _ => self.engine_search(c, task),
        }
    }

    fn top_pos(&self, c: usize, t: usize) -> Option<Pos> {
        let e = &self.exec.eng[c];
        match e.tasks.get(t) {
            Some(task) => task.stack.last().map(|x| x.1.clone()),
            None => e.base.as_ref().map(|x| x.1.clone()),
        }
    }

    fn eop(&mut self, c: usize, task: usize, e: EOp) -> Result<(), End> {
        self.op(Op::Engine { c, task, e })
    }

    /// Search-like walk: descend into children (in-place make_move into used buffers), null moves, ascend.
    fn engine_search(&mut self, c: usize, task: usize) -> Result<(), End> {
        if self.prof.prop == 5 && !self.did_tree && self.rng.chance(1, 6) {
            // complete move tree to depth 2 under the task's current position (C05: "complete move trees to a bounded depth")
            if let Some(pos) = self.top_pos(c, task) {
                let l1 = pos.legal_moves();
                if !l1.is_empty() && l1.len() <= 40 {
                    self.did_tree = true;
                    for m1 in l1 {
                        self.eop(c, task, EOp::Descend { mv: m1, dirty: 2 })?;
                        let p1 = pos.make(m1);
                        for m2 in p1.legal_moves() {
                            self.eop(c, task, EOp::Descend { mv: m2, dirty: 3 })?;
                            self.eop(c, task, EOp::Ascend)?;
                        }
                        self.eop(c, task, EOp::Ascend)?;
                    }
                    self.exec.stats.cnt("reach.full_width_depth2_trees");
                    return Ok(());
                }
            }
        }
        if self.prof.prop == 5 {
            if self.rng.chance(1, 2) {
                let n = self.rng.range(2, 40) as usize;
                let picks: Vec<u8> = (0..n).map(|_| self.rng.below(256) as u8).collect();
                self.eop(c, task, EOp::LibWalk { picks })?;
            }
            if self.rng.chance(1, 10) {
                self.eop(c, task, EOp::LibTree)?;
            }
        }
        let steps = self.rng.range(2, 10);
        if self.rng.chance(1, 3) {
            self.eop(c, task, EOp::Reset)?;
        }
        for _ in 0..steps {
            let pos = match self.top_pos(c, task) {
                Some(p) => p,
                None => return Ok(()),
            };
            let r = self.rng.below(10);
            if [1usize, 3, 4, 8, 9, 18].contains(&self.prof.prop) && self.rng.chance(1, 6) {
                // a UI edits the position with the (deprecated) setters
                if self.rng.chance(1, 4) {
                    let code = self.rng.below(32) as u8;
                    self.eop(c, task, EOp::Rights { code })?;
                    continue;
                }
                let sq = self.rng.below(64) as u8;
                let kind = if self.rng.chance(1, 8) {
                    pos.sq[sq as usize] // the same content again: clear an empty square, or put the man that is already there
                } else if self.rng.chance(1, 3) {
                    None
                } else {
                    let k = *self.rng.pick(&[Kind::P, Kind::N, Kind::B, Kind::R, Kind::Q]);
                    let c = if self.rng.chance(1, 2) { Col::W } else { Col::B };
                    Some((k, c))
                };
                self.eop(c, task, EOp::Edit { sq, kind })?;
                continue;
            }
            if r < 6 {
                let lm = pos.legal_moves();
                if lm.is_empty() {
                    self.eop(c, task, EOp::Ascend)?;
                    continue;
                }
                let mv = self.choose_move(&pos, &lm);
                let dirty = self.rng.below(64) as u32;
                self.eop(c, task, EOp::Descend { mv, dirty })?;
            } else if r < 8 {
                self.eop(c, task, EOp::Null)?;
            } else {
                self.eop(c, task, EOp::Ascend)?;
            }
        }
        Ok(())
    }

    fn random_mask(&mut self, pos: &Pos, lm: &[Mv]) -> u64 {
        match self.rng.below(7) {
            0 => {
                // enemy men
                let mut m = 0u64;
                for s in 0..64 {
                    if matches!(pos.sq[s], Some((_, c)) if c != pos.stm) {
                        m |= 1 << s;
                    }
                }
                m
            }
            1 => self.rng.next_u64(),
            2 => self.rng.next_u64() & self.rng.next_u64(),
            3 => {
                // a few legal destinations
                let mut m = 0u64;
                for _ in 0..self.rng.range(1, 3) {
                    if !lm.is_empty() {
                        m |= 1u64 << self.rng.pick(lm).to;
                    }
                }
                m
            }
            4 => {
                // one rank or file
                if self.rng.chance(1, 2) {
                    0xffu64 << (8 * self.rng.below(8))
                } else {
                    0x0101_0101_0101_0101u64 << self.rng.below(8)
                }
            }
            5 => 0,
            _ => !0,
        }
    }

    fn drain_mask(&mut self, c: usize, task: usize) -> Result<(), End> {
        for _ in 0..260 {
            if self.rng.chance(1, 3) {
                self.eop(c, task, EOp::Len)?;
            }
            self.eop(c, task, EOp::Next)?;
            let done = self.exec.eng[c]
                .tasks
                .get(task)
                .and_then(|t| t.gen.as_ref())
                .map_or(true, |g| g.model.exhausted || g.model.out_of_contract);
            if done {
                break;
            }
        }
        if self.rng.chance(1, 2) {
            self.eop(c, task, EOp::Len)?;
        }
        Ok(())
    }

    /// A C14 call program: optional removals, a sequence of masks each iterated to exhaustion, len probes.
    fn engine_c14(&mut self, c: usize, task: usize) -> Result<(), End> {
        // move to a position first: stay, descend or reset
        match self.rng.below(5) {
            0 => self.eop(c, task, EOp::Reset)?,
            1 | 2 => {
                if let Some(pos) = self.top_pos(c, task) {
                    let lm = pos.legal_moves();
                    if !lm.is_empty() {
                        let mv = self.choose_move(&pos, &lm);
                        self.eop(c, task, EOp::Descend { mv, dirty: 0 })?;
                    }
                }
            }
            _ => {}
        }
        let pos = match self.top_pos(c, task) {
            Some(p) => p,
            None => return Ok(()),
        };
        let lm = pos.legal_moves();
        self.eop(c, task, EOp::NewGen)?;
        if self.rng.chance(1, 2) {
            self.eop(c, task, EOp::Len)?;
        }
        // removals beforehand
        if !lm.is_empty() && self.rng.chance(2, 5) {
            let k = self.rng.range(1, 3);
            for _ in 0..k {
                let special: Vec<Mv> = lm.iter().cloned().filter(|m| pos.is_ep(*m) || m.promo.is_some()).collect();
                let mv = if !special.is_empty() && self.rng.chance(2, 3) { *self.rng.pick(&special) } else { *self.rng.pick(&lm) };
                self.eop(c, task, EOp::RemoveMove(mv))?;
            }
        }
        if self.rng.chance(1, 5) {
            let bb = match self.rng.below(3) {
                0 => 1u64 << self.rng.below(64),
                1 => self.rng.next_u64() & self.rng.next_u64() & self.rng.next_u64(),
                _ => {
                    // all destinations of one source: the entry becomes empty
                    if lm.is_empty() {
                        0
                    } else {
                        let src = self.rng.pick(&lm).from;
                        lm.iter().filter(|m| m.from == src).fold(0u64, |a, m| a | (1u64 << m.to))
                    }
                }
            };
            self.eop(c, task, EOp::RemoveMask(bb))?;
        }
        if self.rng.chance(1, 2) {
            self.eop(c, task, EOp::Len)?;
        }
        let nmasks = self.rng.range(0, 5);
        for _ in 0..nmasks {
            let bb = self.random_mask(&pos, &lm);
            self.eop(c, task, EOp::SetMask(bb))?;
            if !lm.is_empty() && self.rng.chance(1, 4) {
                // exclusion after the mask was chosen but before it is iterated (still "beforehand")
                if self.rng.chance(1, 2) {
                    let mv = *self.rng.pick(&lm);
                    self.eop(c, task, EOp::RemoveMove(mv))?;
                } else {
                    // all masked destinations of one piece
                    let src = self.rng.pick(&lm).from;
                    let m2 = lm.iter().filter(|m| m.from == src && (bb & (1u64 << m.to)) != 0).fold(0u64, |a, m| a | (1u64 << m.to));
                    if m2 != 0 {
                        self.eop(c, task, EOp::RemoveMask(m2))?;
                    }
                }
            }
            self.drain_mask(c, task)?;
            // between passes a search routine may exclude more moves (killer already tried, bad captures ...)
            if !lm.is_empty() && self.rng.chance(1, 4) {
                if self.rng.chance(1, 2) {
                    let mv = *self.rng.pick(&lm);
                    self.eop(c, task, EOp::RemoveMove(mv))?;
                } else {
                    let bb = match self.rng.below(3) {
                        0 => 1u64 << self.rng.pick(&lm).to,
                        1 => self.rng.next_u64() & self.rng.next_u64(),
                        _ => self.random_mask(&pos, &lm),
                    };
                    self.eop(c, task, EOp::RemoveMask(bb))?;
                }
                if self.rng.chance(1, 2) {
                    self.eop(c, task, EOp::Len)?;
                }
            }
        }
        if self.rng.chance(4, 5) {
            if nmasks > 0 {
                self.eop(c, task, EOp::SetMask(!0))?;
            }
            self.drain_mask(c, task)?;
        }
        Ok(())
    }

    /// A C19 program: the client's table shared by its tasks; real position hashes and aliasing keys.
    fn engine_c19(&mut self, c: usize, task: usize) -> Result<(), End> {
        if self.exec.eng[c].table.is_none() || self.rng.chance(1, 60) {
            if self.rng.chance(1, 4) {
                // E-BADSIZE: the constructor must panic exactly for non-powers of two
                let k = self.rng.range(1, 16);
                let j = self.rng.range(0, 15);
                let bad = *self.rng.pick(&[
                    0u64, 3, 5, 6, 7, 12, (1 << k) + 1, (1u64 << k).wrapping_sub(1).max(3), (1 << k) + (1 << j) + if k == j { 1 } else { 0 },
                    // far beyond any memory: must be refused before anything is allocated
                    (1 << 48) + 1, 3 << 56, u64::MAX, (1 << 62) + 8, (1 << 45) + (1 << 44),
                ]);
                self.eop(c, task, EOp::TableNew { size: bad })?;
            }
            let size = 1u64 << self.cfg.table_log2;
            self.eop(c, task, EOp::TableNew { size })?;
        }
        let size = 1u64 << self.cfg.table_log2;
        let steps = self.rng.range(3, 16);
        for _ in 0..steps {
            // walk a little so that real hashes of different positions are used
            if self.rng.chance(1, 3) {
                if let Some(pos) = self.top_pos(c, task) {
                    let lm = pos.legal_moves();
                    if !lm.is_empty() && self.rng.chance(3, 4) {
                        let mv = *self.rng.pick(&lm);
                        self.eop(c, task, EOp::Descend { mv, dirty: 1 })?;
                    } else {
                        self.eop(c, task, EOp::Reset)?;
                    }
                }
            }
            // E-ALIAS keys: same slot, different high bits; 0; u64::MAX; size; size-1
            let alias_key = match self.rng.below(8) {
                0 => 0u64,
                1 => u64::MAX,
                2 => size,
                3 => size.wrapping_sub(1),
                4 => self.rng.below(size.max(1)) + size * self.rng.below(4),
                5 => self.rng.next_u64(),
                _ => (self.rng.below(4) % size.max(1)) + size.wrapping_mul(self.rng.next_u64() >> 20),
            };
            // keys that agree with an earlier key in the low 16 / 32 / 48 / 56 / 63 bits and differ above
            let alias_key = if !self.used_keys.is_empty() && self.rng.chance(1, 3) {
                let base = *self.rng.pick(&self.used_keys);
                let sh = *self.rng.pick(&[16u32, 32, 32, 48, 56, 63]);
                let hi = (self.rng.next_u64() | 1) << sh;
                base ^ hi
            } else if self.rng.chance(1, 12) {
                // low bits all zero: an untouched slot holds (hash 0, default) and must not answer for these
                1u64 << *self.rng.pick(&[16u32, 32, 40, 48, 63])
            } else {
                alias_key
            };
            if self.used_keys.len() < 64 {
                self.used_keys.push(alias_key);
            } else {
                let i = self.rng.usize(64);
                self.used_keys[i] = alias_key;
            }
            // supplementary runs: pairs of keys related through the inverse of a well-known multiplicative-hash constant
            // (h and h + size * c^-1 share the slot AND every multiplicative tag folded from h * c)
            let alias_key = if self.prof.supp && self.rng.chance(1, 3) {
                let c = *self.rng.pick(&MULT_CONSTS);
                let inv = inv_mod_2_64(c);
                let step = size.max(1).wrapping_mul(inv).wrapping_mul(1 + self.rng.below(3));
                let base = if !self.used_keys.is_empty() && self.rng.chance(3, 4) { *self.rng.pick(&self.used_keys) } else { 0 };
                if self.rng.chance(1, 2) { base.wrapping_add(step) } else { base.wrapping_sub(step) }
            } else {
                alias_key
            };
            let here_alias = if self.rng.chance(1, 2) { 0 } else { (self.rng.next_u64() >> 8) << self.cfg.table_log2.max(1) };
            let val = *self.rng.pick(&[0u8, 0, 0, 0, 1, 1, 2, 3, 3, 4]);
            match self.rng.below(8) {
                0 | 1 => self.eop(c, task, EOp::TableGetHere { alias: here_alias })?,
                2 => self.eop(c, task, EOp::TableAddHere { alias: here_alias })?,
                3 | 4 => self.eop(c, task, EOp::TableGet { key: alias_key })?,
                5 => self.eop(c, task, EOp::TableAdd { key: alias_key, val })?,
                _ => {
                    let pred = self.rng.below(6) as u8;
                    self.eop(c, task, EOp::TableReplaceIf { key: alias_key, pred, val })?
                }
            }
        }
        Ok(())
    }

    // ------------------------------------------------------------------------------ text fuzz

    fn mutate_text(&mut self, base: &str) -> String {
        let mut b: Vec<u8> = base.as_bytes().to_vec();
        let n = self.rng.range(1, 3);
        for _ in 0..n {
            match self.rng.below(7) {
                0 if !b.is_empty() => {
                    let i = self.rng.usize(b.len());
                    b[i] ^= 1 << self.rng.below(7);
                }
                1 if !b.is_empty() => {
                    let i = self.rng.usize(b.len());
                    b.truncate(i);
                }
                2 => {
                    let other = if self.last_texts.is_empty() { "e4".to_string() } else { self.rng.pick(&self.last_texts).clone() };
                    let i = self.rng.usize(b.len() + 1);
                    let tail = b.split_off(i);
                    b.extend_from_slice(other.as_bytes());
                    b.extend_from_slice(&tail);
                }
                3 => {
                    let s = *self.rng.pick(&["é", "ß", "→", "♞", "𝄞", "\u{0}", " ", "Ω", "１"]);
                    let i = self.rng.usize(b.len() + 1);
                    let tail = b.split_off(i);
                    b.extend_from_slice(s.as_bytes());
                    b.extend_from_slice(&tail);
                }
                4 if !b.is_empty() => {
                    let i = self.rng.usize(b.len());
                    b.remove(i);
                }
                5 if !b.is_empty() => {
                    let i = self.rng.usize(b.len());
                    let ch = *self.rng.pick(b"abcdefgh12345678xNBRQKOo-+#=/ wbkqpnr0 9.e");
                    b[i] = ch;
                }
                _ => {
                    let ch = *self.rng.pick(b"abcdefgh12345678xNBRQKO-+#=/ wkq!?.");
                    b.push(ch);
                }
            }
        }
        String::from_utf8_lossy(&b).into_owned()
    }

    fn noise(&mut self) -> String {
        let len = self.rng.below(40) as usize;
        let mut s = String::new();
        for _ in 0..len {
            let ch = match self.rng.below(6) {
                0 => char::from_u32(self.rng.below(0x80) as u32).unwrap_or('?'),
                1 => char::from_u32(0x80 + self.rng.below(0x700) as u32).unwrap_or('?'),
                2 => char::from_u32(0x1F000 + self.rng.below(0x400) as u32).unwrap_or('?'),
                _ => *self.rng.pick(&['/', ' ', 'k', 'K', 'p', '8', '1', 'w', 'b', '-', 'e', '3', 'q', 'Q']),
            };
            s.push(ch);
        }
        s
    }

    fn fen_field_fuzz(&mut self, fen: &str) -> String {
        let mut f: Vec<String> = fen.split(' ').map(|x| x.to_string()).collect();
        if f.len() < 4 {
            return fen.to_string();
        }
        match self.rng.below(14) {
            0 => f.swap(0, 1),
            1 => {
                let mut r: Vec<&str> = f[0].split('/').collect();
                let i = self.rng.usize(r.len());
                let dup = r[i];
                r.insert(i, dup);
                f[0] = r.join("/");
            }
            2 => f[0] = f[0].replacen(|c: char| c.is_ascii_digit(), *self.rng.pick(&["9", "0", "8", "7"]), 1),
            3 => f[0] = f[0].replacen('/', "//", 1),
            4 => f[0].push_str("/8"),
            5 => f[1] = self.rng.pick(&["", "W", "B", "x", "ww", "b "]).to_string(),
            6 => f[2] = self.rng.pick(&["KK", "qkQK", "KQkqKQkq", "", "AHah", "kq-", "Kk", "Qq", "KQ", "kq", "K", "q"]).to_string(),
            7 => {
                let file = (b'a' + self.rng.below(8) as u8) as char;
                let rank = (b'1' + self.rng.below(8) as u8) as char;
                f[3] = format!("{}{}", file, rank);
            }
            8 => f[1] = if f[1] == "w" { "b".into() } else { "w".into() },
            9 => {
                // upper/lower flip of one piece letter
                let bytes: Vec<u8> = f[0].bytes().collect();
                let idx: Vec<usize> = (0..bytes.len()).filter(|i| bytes[*i].is_ascii_alphabetic()).collect();
                if !idx.is_empty() {
                    let i = *self.rng.pick(&idx);
                    let mut nb = bytes.clone();
                    nb[i] ^= 0x20;
                    f[0] = String::from_utf8(nb).unwrap();
                }
            }
            10 => {
                f.truncate(self.rng.range(1, 3) as usize);
            }
            11 => f.insert(self.rng.usize(4), String::new()),
            12 => f[0] = f[0].replacen(|c: char| c.is_ascii_digit(), "Q", 1),
            _ => {
                // replace one piece letter by a king or pawn
                let bytes: Vec<u8> = f[0].bytes().collect();
                let idx: Vec<usize> = (0..bytes.len()).filter(|i| bytes[*i].is_ascii_alphabetic()).collect();
                if !idx.is_empty() {
                    let i = *self.rng.pick(&idx);
                    let mut nb = bytes.clone();
                    nb[i] = *self.rng.pick(b"KkPpQqNn");
                    f[0] = String::from_utf8(nb).unwrap();
                }
            }
        }
        f.join(" ")
    }

    /// Single-component siblings of a valid position (C09): side, one castling letter, en-passant file, one man.
    fn siblings(&mut self, p: &Pos) -> Vec<Pos> {
        let mut out = vec![];
        let mut q = p.clone();
        q.stm = p.stm.other();
        q.ep = None;
        let mut base_no_ep = p.clone();
        base_no_ep.ep = None;
        out.push(q);
        for i in 0..4 {
            let mut q = p.clone();
            q.castle[i] = !q.castle[i];
            out.push(q);
        }
        for _ in 0..3 {
            let mut q = p.clone();
            let s = self.rng.usize(64);
            let k = *self.rng.pick(&[Kind::P, Kind::N, Kind::B, Kind::R, Kind::Q]);
            let c = if self.rng.chance(1, 2) { Col::W } else { Col::B };
            q.sq[s] = match q.sq[s] {
                Some((Kind::K, _)) => continue,
                Some(_) if self.rng.chance(1, 3) => None,
                Some((kk, cc)) if self.rng.chance(1, 2) => Some((kk, cc.other())),
                _ => Some((k, c)),
            };
            out.push(q);
        }
        // en-passant file among files for which a double push could just have happened
        for f in 0..8 {
            let mut q = base_no_ep.clone();
            let tr = if q.stm == Col::W { 5 } else { 2 };
            q.ep = mk(f, tr);
            out.push(q);
        }
        out.push(base_no_ep.clone());
        // two-component variants (en-passant file x one castling letter): never compared with the base as
        // "siblings", but they enter the collision census together with everything else
        for f in 0..8 {
            for i in 0..4 {
                let mut q = base_no_ep.clone();
                let tr = if q.stm == Col::W { 5 } else { 2 };
                q.ep = mk(f, tr);
                q.castle[i] = !q.castle[i];
                out.push(q);
            }
        }
        out.retain(|q| q.strict_validity_error().is_none() && q != p);
        // positions no game reaches but the library takes (its validity test knows nothing of pawns on the first and
        // last rank): they get hashes like all others, and the census compares them with everything else
        for _ in 0..4 {
            let f = self.rng.usize(8);
            let r = if self.rng.chance(1, 2) { 0 } else { 7 };
            let c = if self.rng.chance(1, 2) { Col::W } else { Col::B };
            let mut q = base_no_ep.clone();
            if matches!(q.sq[r * 8 + f], Some((Kind::K, _))) {
                continue;
            }
            q.sq[r * 8 + f] = Some((Kind::P, c));
            if q.validity_error().is_none() && q.men(c) <= 16 && &q != p {
                out.push(q);
            }
        }
        out
    }

    fn extra(&mut self) -> Result<(), End> {
        let pos = match self.exec.srv.model.as_ref() {
            Some(g) => g.pos.clone(),
            None => return Ok(()),
        };
        let fen = pos.fen();
        match self.prof.fuzz {
            TextFuzz::Fen => {
                let n = self.rng.range(2, 10);
                for _ in 0..n {
                    let r = self.rng.below(12);
                    if r < 2 {
                        let (placement, stm, castle, ep_file) = gen::arbitrary_builder(&mut self.rng);
                        {
                            let order = if self.rng.chance(1, 2) { 0 } else { self.rng.below(16) as u8 };
                            self.op(Op::ValidateBuilder { placement, stm, castle, ep_file, order })?;
                        }
                    } else if r < 3 {
                        // neighbours of the current position through the builder (one square changed or two squares
                        // swapped - in particular a king with a rook at home -, rights, ep file)
                        let mut pl: Vec<u8> = squares_to_placement(&pos.sq).into_bytes();
                        let i = self.rng.usize(64);
                        match self.rng.below(4) {
                            0 => {
                                let j = self.rng.usize(64);
                                pl.swap(i, j);
                            }
                            1 => {
                                let (k, r2) = *self.rng.pick(&[(4usize, 7usize), (4, 0), (60, 63), (60, 56)]);
                                pl.swap(k, r2);
                                if self.rng.chance(1, 2) {
                                    // kings and rooks put there if missing, so that the swap is the only defect
                                    if k == 4 { pl[r2] = b'K'; pl[k] = b'R'; } else { pl[r2] = b'k'; pl[k] = b'r'; }
                                }
                            }
                            _ => pl[i] = *self.rng.pick(b".PNBRQKpnbrqk"),
                        }
                        let stm = if self.rng.chance(1, 4) { pos.stm.other() } else { pos.stm };
                        let castle = self.rng.below(16) as u8;
                        let ep_file = if self.rng.chance(1, 2) { 8 } else { self.rng.below(8) as u8 };
                        {
                            let order = self.rng.below(16) as u8;
                            self.op(Op::ValidateBuilder { placement: String::from_utf8(pl).unwrap(), stm, castle, ep_file, order })?;
                        }
                    } else if r < 4 {
                        let t = self.noise();
                        self.op(Op::Validate { text: t })?;
                    } else if r < 8 {
                        let t = self.fen_field_fuzz(&fen);
                        self.op(Op::Validate { text: t })?;
                    } else if r < 9 {
                        // model-written valid text: must be accepted (completeness)
                        let men = self.rng.range(2, 32) as usize;
                        let ep = self.rng.chance(1, 2);
                        let q = if self.rng.chance(1, 6) {
                            Pos::from_fen(gen::CORPUS[self.rng.usize(gen::CORPUS.len())]).unwrap()
                        } else {
                            gen::random_valid(&mut self.rng, men, ep, true)
                        };
                        let t = if self.rng.chance(1, 2) { q.fen() } else { q.fen_ep_if_beside() };
                        self.op(Op::Validate { text: t })?;
                    } else {
                        let t = self.mutate_text(&fen);
                        self.op(Op::Validate { text: t })?;
                    }
                }
            }
            TextFuzz::San => {
                let lm = pos.legal_moves();
                let n = self.rng.range(2, 12);
                for _ in 0..n {
                    let base = if !lm.is_empty() && self.rng.chance(5, 6) {
                        let m = *self.rng.pick(&lm);
                        let sp = san_spellings(&pos, m);
                        self.rng.pick(&sp).text()
                    } else {
                        self.noise()
                    };
                    let text = match self.rng.below(7) {
                        0 => base.clone(),
                        1 => {
                            // trailing characters the grammar has no place for
                            let junk = *self.rng.pick(&["junk", "!", "?", "!!", " ", "=Q", "e4", "x", "++", " e.p", "\u{e9}", "#+", "\n"]);
                            format!("{}{}", base, junk)
                        }
                        2 => {
                            // a SAN written for another position (stale replica)
                            if let Some(q) = self.exec.cl[self.rng.usize(2)].pos.clone() {
                                let l2 = q.legal_moves();
                                if l2.is_empty() {
                                    base.clone()
                                } else {
                                    let m = *self.rng.pick(&l2);
                                    let sp = san_spellings(&q, m);
                                    self.rng.pick(&sp).text()
                                }
                            } else {
                                base.clone()
                            }
                        }
                        3 => {
                            // hints dropped or changed: ambiguous or denoting nothing
                            match San::parse(&base) {
                                Some(mut s) => {
                                    match self.rng.below(5) {
                                        0 => {
                                            s.file_hint = None;
                                            s.rank_hint = None
                                        }
                                        1 => s.file_hint = Some(self.rng.below(8) as i32),
                                        2 => s.rank_hint = Some(self.rng.below(8) as i32),
                                        3 => s.dest = self.rng.below(64) as u8,
                                        _ => s.piece = *self.rng.pick(&[Kind::N, Kind::B, Kind::R, Kind::Q, Kind::K, Kind::P]),
                                    }
                                    s.text()
                                }
                                None => base.clone(),
                            }
                        }
                        4 => {
                            // the components of a correct spelling in a wrong order, doubled or dropped
                            match San::parse(&base) {
                                Some(sp) if sp.castle.is_none() => {
                                    let mut parts: Vec<String> = vec![];
                                    if sp.piece != Kind::P {
                                        parts.push(kind_letter_upper(sp.piece).to_string());
                                    }
                                    if let Some(f) = sp.file_hint {
                                        parts.push(((b'a' + f as u8) as char).to_string());
                                    }
                                    if let Some(r) = sp.rank_hint {
                                        parts.push(((b'1' + r as u8) as char).to_string());
                                    }
                                    parts.push("x".to_string());
                                    parts.push(sq_name(sp.dest));
                                    if let Some(k) = sp.promo {
                                        parts.push(kind_letter_upper(k).to_string());
                                    }
                                    parts.push(if self.rng.chance(1, 2) { "+".into() } else { "#".into() });
                                    if self.rng.chance(1, 3) {
                                        parts.push(" e.p.".to_string());
                                    }
                                    match self.rng.below(4) {
                                        0 => {
                                            let i = self.rng.usize(parts.len());
                                            let j = self.rng.usize(parts.len());
                                            parts.swap(i, j);
                                        }
                                        1 => {
                                            let i = self.rng.usize(parts.len());
                                            let dup = parts[i].clone();
                                            parts.insert(i, dup);
                                        }
                                        2 => {
                                            let i = self.rng.usize(parts.len());
                                            let moved = parts.remove(i);
                                            let j = self.rng.usize(parts.len() + 1);
                                            parts.insert(j, moved);
                                        }
                                        _ => {
                                            let i = self.rng.usize(parts.len());
                                            parts.remove(i);
                                        }
                                    }
                                    parts.concat()
                                }
                                _ => self.mutate_text(&base),
                            }
                        }
                        _ => self.mutate_text(&base),
                    };
                    if pos.ep_pawn_beside() && self.rng.chance(1, 3) {
                        // the same text against the position and against its twin without en-passant state, back to back
                        let mut q = pos.clone();
                        q.ep = None;
                        let ep_texts: Vec<String> = lm.iter().filter(|m| pos.is_ep(**m)).flat_map(|m| san_spellings(&pos, *m).into_iter().map(|s| s.text())).collect();
                        let t2 = if !ep_texts.is_empty() && self.rng.chance(2, 3) { self.rng.pick(&ep_texts).clone() } else { text.clone() };
                        let (f1, f2) = if self.rng.chance(1, 2) { (fen.clone(), q.fen()) } else { (q.fen(), fen.clone()) };
                        self.op(Op::DecodeSan { fen: f1, text: t2.clone() })?;
                        self.op(Op::DecodeSan { fen: f2, text: t2 })?;
                    }
                    self.op(Op::DecodeSan { fen: fen.clone(), text })?;
                }
            }
            TextFuzz::Uci => {
                let n = self.rng.range(4, 30);
                for _ in 0..n {
                    let m = Mv::new(self.rng.below(64) as u8, self.rng.below(64) as u8, *self.rng.pick(&crate::oracle::ALL_PROMOS));
                    let base = m.uci();
                    if self.prof.supp && self.rng.chance(1, 2) {
                        // a last-rank pawn step written the way GUIs, SAN and long algebraic notation write promotions
                        let white = self.rng.chance(1, 2);
                        let f = self.rng.below(8) as i32;
                        let g = (f + *self.rng.pick(&[-1i32, 0, 0, 1])).clamp(0, 7);
                        let (r1, r2) = if white { ('7', '8') } else { ('2', '1') };
                        let (a, b) = (format!("{}{}", (b'a' + f as u8) as char, r1), format!("{}{}", (b'a' + g as u8) as char, r2));
                        let l = *self.rng.pick(&["q", "r", "b", "n", "Q", "R", "B", "N", "k", "p", ""]);
                        let t = match self.rng.below(12) {
                            0 | 1 => format!("{}{}={}", a, b, l),
                            2 => format!("{}{}({})", a, b, l),
                            3 => format!("{}{}/{}", a, b, l),
                            4 => format!("{}-{}{}", a, b, l),
                            5 => format!("{}x{}{}", a, b, l),
                            6 => format!("{}{} {}", a, b, l),
                            7 => format!("{}{}{}+", a, b, l),
                            8 => format!("{}{}{}#", a, b, l),
                            9 => format!("{}{}:{}", a, b, l),
                            10 => format!("{}{}={}+", a, b, l),
                            _ => format!("{}{}{}{}", a, b, l, l),
                        };
                        self.op(Op::DecodeUci { text: t })?;
                        continue;
                    }
                    match self.rng.below(11) {
                        8 => {
                            // a file letter (or a square and a file letter) followed by an arbitrary scalar
                            let ch = char::from_u32(0x80 + self.rng.below(0x2_0000) as u32).unwrap_or('\u{131}');
                            let f = (b'a' + self.rng.below(8) as u8) as char;
                            if self.rng.chance(1, 2) {
                                self.op(Op::DecodeSquare { text: format!("{}{}", f, ch) })?
                            } else {
                                let t = match self.rng.below(3) {
                                    0 => format!("{}{}{}", f, ch, &base[2..]),
                                    1 => format!("{}{}{}", &base[..2], f, ch),
                                    _ => format!("{}{}", &base[..4], ch),
                                };
                                self.op(Op::DecodeUci { text: t })?
                            }
                        }
                        9 | 10 => {
                            // white space and line terminators around an otherwise valid text
                            let ws = *self.rng.pick(&["\n", "\r", "\r\n", "\t", " ", "\u{b}", "\u{a0}", "\u{feff}", "\u{200b}", "\u{2060}", "\u{200e}", "\u{0}"]);
                            let t = match self.rng.below(3) {
                                0 => format!("{}{}", ws, base),
                                1 => format!("{}{}", base, ws),
                                _ => format!("{}{}{}", ws, base, ws),
                            };
                            if self.rng.chance(1, 4) {
                                let sq = sq_name(self.rng.below(64) as u8);
                                self.op(Op::DecodeSquare { text: format!("{}{}", ws, sq) })?
                            } else {
                                self.op(Op::DecodeUci { text: t })?
                            }
                        }
                        7 if self.rng.chance(1, 2) => {
                            // over-long texts whose length sits around a power of two (narrowing casts of the length)
                            let total = *self.rng.pick(&[255usize, 256, 257, 260, 261, 262, 511, 512, 517, 773, 1029, 65535, 65536, 65541]);
                            let tail = *self.rng.pick(&["q", "r", "n", "b", "Q", "1", " "]);
                            let mut t = base.clone();
                            while t.len() + tail.len() < total {
                                t.push(*self.rng.pick(&['x', '-', ' ', '0', 'z', '+']));
                            }
                            t.push_str(tail);
                            self.op(Op::DecodeUci { text: t })?
                        }
                        3 if self.rng.chance(1, 6) => {
                            // tokens with a special meaning in neighbouring protocols
                            let t = *self.rng.pick(&["0000", "(none)", "null", "NULL", "none", "--", "@@@@", "a1a1", "O-O", "0-0", "e1g1", "e8c8", "0000q", "a0a0", "i1i2", "h9h8"]);
                            if self.rng.chance(1, 4) {
                                self.op(Op::DecodeSquare { text: t.to_string() })?
                            } else {
                                self.op(Op::DecodeUci { text: t.to_string() })?
                            }
                        }
                        0 | 1 | 2 | 3 => self.op(Op::DecodeUci { text: base })?,
                        4 => {
                            let t = self.mutate_text(&base);
                            self.op(Op::DecodeUci { text: t })?
                        }
                        5 => {
                            let t = self.noise();
                            self.op(Op::DecodeUci { text: t })?
                        }
                        6 => {
                            let t = sq_name(self.rng.below(64) as u8);
                            self.op(Op::DecodeSquare { text: t })?
                        }
                        _ => {
                            let t = if self.rng.chance(1, 2) { self.mutate_text(&base[0..2]) } else { self.noise() };
                            self.op(Op::DecodeSquare { text: t })?
                        }
                    }
                }
            }
            TextFuzz::Siblings => {
                let sibs = self.siblings(&pos);
                for q in sibs {
                    self.op(Op::Pair { a: fen.clone(), b: q.fen() })?;
                }
                // equal positions written differently (counters, en-passant spelling) must hash equal
                let mut q = pos.clone();
                q.halfmove += 7;
                q.fullmove += 3;
                self.op(Op::Pair { a: fen.clone(), b: q.fen() })?;
                self.op(Op::Pair { a: fen.clone(), b: pos.fen_ep_if_beside() })?;
            }
            TextFuzz::None => {}
        }
        if self.last_fens.len() < 8 {
            self.last_fens.push(fen);
        }
        Ok(())
    }
}
