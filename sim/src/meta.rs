//! Per-property batch sizes (in RUNS, not seconds), evidence wording and expected reach probes.

pub struct PropMeta {
    /// (fault-free runs, fault-injecting runs)
    pub quick: (u64, u64),
    pub thorough: (u64, u64),
    pub rule: &'static str,
    pub real: &'static [&'static str],
    pub stub: &'static [&'static str],
    pub assumptions: &'static [&'static str],
    pub expected_reach: &'static [&'static str],
}

/// supplementary runs per tier (quick, thorough): run indices from `run::SUPP_BASE` on, fault-free profile, carrying the
/// additions of round 9 (DESIGN section 19) without changing any ordinary run
pub fn supp_runs(prop: usize) -> (u64, u64) {
    match prop {
        8 => (600, 12000),
        13 => (600, 12000),
        14 => (1200, 24000),
        19 => (2400, 48000),
        _ => (0, 0),
    }
}

pub const CLAIMED: &[usize] = &[1, 2, 3, 4, 5, 6, 7, 8, 9, 10, 11, 12, 13, 14, 17, 18, 19];

const STUB: &[&str] = &[
    "transport (drop/dup/delay/partition/corruption)",
    "disk (journal with lost/torn/rotted records)",
    "clock and event heap",
    "scheduler",
    "PRNG (xoshiro256** from VERIF_SEED)",
    "client decision policies",
    "SAN writer",
    "reference model (mailbox chess rules, GameModel, IterModel, TableModel)",
];

const ASSUME: &[&str] = &[
    "the reference model (mailbox move generator, game / iterator / table models) is correct; it is checked against published perft counts before every batch",
    "seeded sampling: a clean batch is evidence, not proof",
    "the harness profile (opt-level 3 + debug assertions + overflow checks) has the semantics of the repository's own dev/test profiles",
];

pub fn meta(prop: usize) -> Option<PropMeta> {
    let m = |quick, thorough, rule, real: &'static [&'static str], expected_reach: &'static [&'static str]| PropMeta {
        quick,
        thorough,
        rule,
        real,
        stub: STUB,
        assumptions: ASSUME,
        expected_reach,
    };
    Some(match prop {
        1 => m((3000, 3000), (60000, 60000),
            "runs of the simulated deployment (server + 2 clients with engine tasks); after every accepted move, snapshot install, recovery and engine descent the generated move list, len, legal_quick, enumerate_moves are compared with the model's legal set, every arriving move value (incl. B-RANDOM / bit-flipped) is put to Board::legal, and sampled positions get the full 64x64x5 sweep. distinct = position-key fingerprint; non-trivial = check, double check, pinned man, en-passant target, castling right or promotion available",
            &["MoveGen::new_legal/len/next", "MoveGen::legal_quick", "Board::legal", "Board::enumerate_moves", "Board::make_move(_new)", "Game", "ChessMove Display/FromStr", "Board::from_str/Display"],
            &["single_check", "double_check", "pinned_man", "ep_state", "ep_capture_illegal_pin_or_check", "castling_available", "promotion_available", "terminal", "full_sweeps", "legal_query_on_arrival"]),
        2 => m((6000, 4000), (120000, 80000),
            "every move applied on the server (Game) and on every engine descent / client replica is checked: all 64 squares, side, rights, en-passant rule vs the model successor; make_move into a USED buffer (E-DIRTY: parent, sibling result, unrelated board) == make_move_new; source untouched. distinct = (position key, move); non-trivial = capture, en passant, castling, promotion, double push or rights change",
            &["Board::make_move", "Board::make_move_new", "Board::piece_on/color_on/castle_rights/en_passant/side_to_move", "Game::make_move"],
            &["ep_capture_played", "castling_played", "promotion_played", "double_push_played", "rook_captured_at_home"]),
        3 => m((4000, 4000), (80000, 80000),
            "replica divergence invariant: server (incremental), clients (incremental from last snapshot, in-place make_move into used buffers), spectator (text only), recovered server (journal replay), engine stacks and null-moved boards; on each: checkers / pinned / occupancy vs model and == with Board::from_str of own FEN in every observable. distinct = position key x arrival path; non-trivial = in check, pinned man, or arrived by snapshot / recovery / null move / replica",
            &["Board::checkers/pinned/pieces/color_combined/combined/piece_on/color_on/king_square", "Board::from_str/Display", "Board::make_move(_new)", "Board::null_move", "Game (recovery replay)"],
            &["in_check", "pinned_man", "snapshot_installed", "replica_pairs_compared", "replica_pairs_different_paths", "null_move_made"]),
        4 => m((9000, 3000), (180000, 60000),
            "status() vs model on every position visited (terminator policy and endgame / mate-in-one starts make terminal positions frequent), Game::result() for mate / stalemate on the server. distinct = position key; non-trivial = no legal move, exactly one legal move, or in check",
            &["Board::status", "Game::result", "MoveGen"],
            &["checkmate", "stalemate"]),
        5 => m((3600, 2400), (72000, 48000),
            "history monitor on the server's accepted sequence, client replicas and engine paths, across crash recovery and snapshot install: is_sane, one king per side, mover not left in check (model and library view), no pawn on rank 1/8, rights and material monotone. distinct = (position key, predecessor key); non-trivial = capture, promotion, castling, rights change or en passant",
            &["Board::is_sane", "Board::make_move(_new)", "Board::checkers", "Game", "Board::from_str"],
            &[]),
        6 => m((6000, 6000), (120000, 120000),
            "every render on every node (snapshots, journal START, set-up hand-over): six well-formed fields, fields 1-3 vs model, en-passant field rule, Board::from_str(own text)==board, Board::from_str(model standard FEN)==board, BoardBuilder round trips. distinct = position key; non-trivial = en-passant target present, partial castling rights or Black to move",
            &["impl Display for Board / BoardBuilder", "Board::from_str", "BoardBuilder::from_str", "CastleRights::to_string", "Piece::to_string"],
            &["ep_target_present", "ep_capture_legal", "ep_beside_but_illegal"]),
        7 => m((500, 4000), (10000, 80000),
            "texts from the wire and disk under N-BIT / N-TRUNC / N-SPLICE / N-UTF8 / D-TORN / D-ROT, field-aware FEN fuzz, Unicode noise, arbitrary BoardBuilder states (0-100% density, crowded boards): no panic; accepted => model re-checks the four acceptance conditions; valid => accepted; accepted boards go through move generation, status, rendering, legality query, two plies of make_move (worker processes detect aborts). distinct = text / builder-state fingerprint; non-trivial = not a byte-identical standard FEN of a valid position",
            &["Board::from_str", "BoardBuilder::from_str", "Board::try_from(&BoardBuilder)", "Game::from_str", "Board::is_sane", "MoveGen", "Board::status/make_move_new/legal"],
            &["text_accepted", "text_rejected", "builder_accepted", "builder_rejected"]),
        8 => m((2400, 3600), (48000, 72000),
            "hash as travelling fingerprint (Update.hash_after, Snapshot.hash, journal records) recomputed by receivers on boards obtained by other paths; per arrival: incremental hash vs Board::from_str(own FEN), vs model standard FEN, vs BoardBuilder; std::hash::Hash vs ==; also vs the FEN that writes '-' where no enemy pawn stands beside the pushed pawn; batch-wide key->hash table merged across workers; supplementary fault-free runs (own index range) start before an edge-file double push with enemy pawns on the wrap-around squares. distinct = position key x arrival path; non-trivial = arrival not by plain incremental play",
            &["Board::get_hash", "impl Hash for Board", "Board::make_move(_new)", "Board::null_move", "Board::from_str", "BoardBuilder"],
            &["snapshot_installed", "replica_pairs_compared", "null_move_made", "position_obtained_by_setter", "position_obtained_by_rights_setter", "setter_no_op_edit"]),
        9 => m((800, 7200), (16000, 144000),
            "single-component siblings (side, one castling letter, en-passant file, one man) of every visited position built through FEN, plus corrupted-but-valid snapshots / updates / journal records whose travelling fingerprint must expose them, plus a batch-wide collision census over all visited positions. distinct = ordered pair of texts; non-trivial = the pair differs in exactly one component",
            &["Board::get_hash", "Board::from_str", "Zobrist tables", "Board::set_piece / clear_square / add_castle_rights / remove_castle_rights (deprecated setters: before / after siblings)", "Board::make_move / null_move (position / successor siblings)"],
            &["position_obtained_by_setter", "position_obtained_by_rights_setter"]),
        10 => m((7000, 17000), (140000, 340000),
            "every action delivered to the server (moves legal / illegal / stale / corrupted / random, offers by either colour, accepts, resignations, claims, duplicates, post-result traffic, replay at recovery) against GameModel in lock-step: acceptance, log, position, side, result, finality, refused-changes-nothing. distinct = (position key, last two action kinds, action, accepted, open); non-trivial = anything but a plain accepted legal move",
            &["Game::{from_str,new_with_board,make_move,offer_draw,accept_draw,resign,declare_draw,result,side_to_move,current_position,actions}", "ChessMove::from_str / from_san", "Board Display / from_str"],
            &["action_after_result", "action_from_stale_replica", "corrupted_action_delivered"]),
        11 => m((1700, 2500), (25000, 38000),
            "long shuffled games (repetition seeker, right burner, 95-110 reversible plies); can_declare_draw / declare_draw at arbitrary events incl. right after recovery vs occurrences>=3 or half-move clock>=100. distinct = (position key, occurrences, clock bucket, rights-changed-in-window); non-trivial = occurrences>=2 or clock>=90",
            &["Game::can_declare_draw", "Game::declare_draw", "Game::result", "Game::make_move"],
            &["claim_at_clock_99", "claim_at_clock_100", "claim_at_clock_101", "claim_at_threefold", "claim_at_twofold", "tour_completed", "tour_swaps_two_different_men", "tour_swaps_two_identical_men", "tour_out_and_back"]),
        12 => m((1200, 1300), (24000, 26000),
            "SAN on the wire (model writer, uniformly among all admissible spellings) decoded by the server; after every accepted move ALL legal moves x ALL admissible spellings; stale / ambiguous / corrupted / noise texts against the current position: exact round trip, rejection of texts fitting 0 or >=2 moves, rejection of text outside the documented grammar, never a panic, never an illegal move. distinct = (position key, text); non-trivial = text with disambiguation, x, promotion, mark, e.p., castling, or not produced by the writer",
            &["ChessMove::from_san", "Game::make_move", "MoveGen"],
            &["san_all_spellings_positions", "san_no_match", "san_ambiguous", "san_malformed_text"]),
        13 => m((1800, 4200), (36000, 84000),
            "coordinate text on the wire and in the journal: library rendering vs model formatter, parse-back identity, prefix rule and totality under corruption; B-RANDOM clients and DecodeUci ops draw uniformly from all 20480 values (coverage measured); supplementary runs (own index range) write last-rank pawn steps the way GUIs, SAN and long algebraic notation spell promotions (e7e8=q, e7e8(Q), e7-e8q, e7xe8q, e7e8q+ ...). distinct = text fingerprint; non-trivial = corrupted / noise text or a promotion",
            &["impl Display for ChessMove / Square", "ChessMove::from_str", "Square::from_str"],
            &["uci_corrupted_decode"]),
        14 => m((9000, 0), (180000, 0),
            "engine tasks issue seeded call programs on MoveGen (removals beforehand, 0-5 masks each iterated to exhaustion, len / size_hint probes at every step) against IterModel; supplementary runs (own index range) start at a double push that uncovers a slider check beside an enemy pawn. distinct = (position key, removal?, number of masks); non-trivial = >=2 masks, a removal, or a promotion / en-passant entry present",
            &["MoveGen::{new_legal,set_iterator_mask,next,len,size_hint,remove_move,remove_mask}", "Board::make_move"],
            &["mask_exhausted", "generator_fully_exhausted", "len_probe_mid_iteration", "removed_en_passant_capture", "removed_promotion"]),
        17 => m((9000, 0), (180000, 0),
            "mirror shadow servers play the colour-flipped (and, without castling rights, file-flipped) game in lock-step; after every step legal moves, status, checkers, pinned and every successor are compared through the mirror (library against itself, no model). distinct = position key; non-trivial = not self-mirror and a special move / check / pin present",
            &["MoveGen", "Board::status/checkers/pinned/make_move_new", "BoardBuilder", "Game::make_move"],
            &["shadow_colour_steps", "shadow_file_steps", "file_mirror_checked"]),
        18 => m((12000, 0), (240000, 0),
            "engine tasks call null_move at every node they visit and keep searching below it (null moves interleaved with real moves); refusal iff in check, result == from-scratch construction in placement, rights, side, en-passant, checkers, pinned, hash. distinct = position key; non-trivial = in check, en-passant state present, or reached below engine moves",
            &["Board::null_move", "Board::from_str", "Board::make_move"],
            &["null_in_check", "null_with_ep_state", "null_after_engine_moves"]),
        19 => m((15000, 0), (300000, 0),
            "one table per client shared by 1-4 interleaved engine tasks, size per run 2^0..2^14, invalid sizes (E-BADSIZE), aliasing keys (E-ALIAS: same slot / 0 / u64::MAX / size / size-1), real position hashes; every get / add / replace_if against TableModel plus a read-back window after every write; supplementary runs (own index range) add key pairs h, h +- k*size*c^-1 for eight well-known hash multipliers c (same slot and same multiplicative tag). distinct = (size, op, slot state, predicate); non-trivial = slot touched before or hit",
            &["CacheTable::{new,get,add,replace_if} with an 8-byte value type and, in lock-step, with a 32-byte value type", "Board::get_hash"],
            &["table_eviction", "get_same_slot_other_hash"]),
        _ => return None,
    })
}
