//! Start-position generators (all on the model side): curated corpus, random valid positions,
//! small endgames and pattern generators that place the few men a rare rule needs.

use crate::model::*;
use crate::rng::Rng;

pub const CORPUS: &[&str] = &[
    "rnbqkbnr/pppppppp/8/8/8/8/PPPPPPPP/RNBQKBNR w KQkq - 0 1",
    "r3k2r/p1ppqpb1/bn2pnp1/3PN3/1p2P3/2N2Q1p/PPPBBPPP/R3K2R w KQkq - 0 1",
    "8/2p5/3p4/KP5r/1R3p1k/8/4P1P1/8 w - - 0 1",
    "r3k2r/Pppp1ppp/1b3nbN/nP6/BBP1P3/q4N2/Pp1P2PP/R2Q1RK1 w kq - 0 1",
    "r2q1rk1/pP1p2pp/Q4n2/bbp1p3/Np6/1B3NBn/pPPP1PPP/R3K2R b KQ - 0 1",
    "rnbq1k1r/pp1Pbppp/2p5/8/2B5/8/PPP1NnPP/RNBQK2R w KQ - 1 8",
    "r4rk1/1pp1qppp/p1np1n2/2b1p1B1/2B1P1b1/P1NP1N2/1PP1QPPP/R4RK1 w - - 0 10",
    // the roots of the pinned suite
    "8/5bk1/8/2Pp4/8/1K6/8/8 w - d6 0 1",
    "8/8/1k6/8/2pP4/8/5BK1/8 b - d3 0 1",
    "8/8/1k6/2b5/2pP4/8/5K2/8 b - d3 0 1",
    "8/5k2/8/2Pp4/2B5/1K6/8/8 w - d6 0 1",
    "5k2/8/8/8/8/8/8/4K2R w K - 0 1",
    "4k2r/8/8/8/8/8/8/5K2 b k - 0 1",
    "3k4/8/8/8/8/8/8/R3K3 w Q - 0 1",
    "r3k3/8/8/8/8/8/8/3K4 b q - 0 1",
    "r3k2r/1b4bq/8/8/8/8/7B/R3K2R w KQkq - 0 1",
    "r3k2r/7b/8/8/8/8/1B4BQ/R3K2R b KQkq - 0 1",
    "r3k2r/8/3Q4/8/8/5q2/8/R3K2R b KQkq - 0 1",
    "r3k2r/8/5Q2/8/8/3q4/8/R3K2R w KQkq - 0 1",
    "2K2r2/4P3/8/8/8/8/8/3k4 w - - 0 1",
    "3K4/8/8/8/8/8/4p3/2k2R2 b - - 0 1",
    "8/8/1P2K3/8/2n5/1q6/8/5k2 b - - 0 1",
    "5K2/8/1Q6/2N5/8/1p2k3/8/8 w - - 0 1",
    "4k3/1P6/8/8/8/8/K7/8 w - - 0 1",
    "8/k7/8/8/8/8/1p6/4K3 b - - 0 1",
    "8/P1k5/K7/8/8/8/8/8 w - - 0 1",
    "8/8/8/8/8/k7/p1K5/8 b - - 0 1",
    "K1k5/8/P7/8/8/8/8/8 w - - 0 1",
    "8/8/8/8/8/p7/8/k1K5 b - - 0 1",
    "8/k1P5/8/1K6/8/8/8/8 w - - 0 1",
    "8/8/8/8/1k6/8/K1p5/8 b - - 0 1",
    "8/8/2k5/5q2/5n2/8/5K2/8 b - - 0 1",
    "8/5k2/8/5N2/5Q2/2K5/8/8 w - - 0 1",
    // hand-written specials
    "8/8/8/K2pP2r/8/8/8/7k w - d6 0 1",          // en passant refused: rank pin (king a5, rook h5)
    "8/8/8/8/k2Pp2R/8/8/7K b - d3 0 1",          // same for Black
    "7k/1b6/8/3pP3/8/8/6K1/8 w - d6 0 1",        // en passant allowed, bishop diagonal not through e5/d5? (control case)
    "6k1/8/8/8/8/8/8/R3K2R w KQ - 0 1",
    "r3k2r/8/8/8/8/8/8/4K3 b kq - 0 1",
    "4k3/8/8/8/8/8/5r2/R3K2R w KQ - 0 1",        // f1 attacked: no O-O, O-O-O fine
    "4k3/8/8/8/8/8/1r6/R3K2R w KQ - 0 1",        // b1 attacked: O-O-O still legal
    "4k3/8/8/8/8/8/3r4/R3K2R w KQ - 0 1",        // d1 attacked: no O-O-O
    "4k3/8/8/8/8/8/4r3/R3K2R w KQ - 0 1",        // in check: no castling
    "r3k2r/8/8/8/8/8/8/R3K2R w KQkq - 0 1",
    "4k3/8/8/8/8/8/8/4K2R w K - 0 1",
    "6k1/5ppp/8/8/8/8/8/R5K1 w - - 0 1",          // back-rank mate in one
    "7k/5Q2/6K1/8/8/8/8/8 w - - 0 1",             // mate in one / stalemate trap
    "7k/8/5K2/6Q1/8/8/8/8 w - - 0 1",             // stalemate in one (Qg6)
    "7k/5Q2/5K2/8/8/8/8/8 b - - 0 1",             // already stalemated
    "R5k1/5ppp/8/8/8/8/8/6K1 b - - 0 1",          // already mated
    "rnb1kbnr/pppp1ppp/8/4p3/6Pq/5P2/PPPPP2P/RNBQKBNR w KQkq - 1 3", // fool's mate: mated
    "4k3/8/8/8/8/8/8/4KB2 w - - 0 1",             // K+B v K
    "4k3/P7/8/8/8/8/7p/4K3 w - - 0 1",            // promotions for both sides
    "r3k3/1P6/8/8/8/8/8/4K3 w q - 0 1",           // promotion capture onto a rook home square with rights
    "4k3/8/8/8/8/8/1p6/R3K3 b Q - 0 1",
    "4k3/8/8/2b5/8/8/3N4/4K3 w - - 0 1",
    "4k3/4r3/8/8/8/8/4N3/4K3 w - - 0 1",          // pinned knight
    "4k3/8/8/b7/8/2P5/8/4K3 w - - 0 1",           // pinned pawn (diagonal): may not push
    "4k3/4r3/8/8/8/8/4P3/4K3 w - - 0 1",          // pinned pawn (file): may push
    "4k3/8/8/8/8/2b5/3P4/4K3 w - - 0 1",          // pinned pawn can capture the pinner
    "3k4/8/8/8/8/8/4n3/4KB1r w - - 0 1",          // single check, block or capture
    "4k3/8/8/8/8/5n2/8/4K2r w - - 0 1",           // double check
    "2kr3r/ppp2ppp/2n5/8/8/2N5/PPP2PPP/2KR3R w - - 0 1",
    "1n2k3/8/8/8/8/8/8/RN2K2R w KQ - 0 1",
    "4k3/8/8/3p4/4P3/8/8/4K3 w - - 0 1",
    "rnbqkbnr/ppp1p1pp/8/3pPp2/8/8/PPPP1PPP/RNBQKBNR w KQkq f6 0 3",
    "rnbqkbnr/1pp1pppp/p7/3pP3/8/8/PPPP1PPP/RNBQKBNR w KQkq d6 0 3",
    "8/6k1/8/8/4p1p1/8/5P2/6K1 w - - 0 1",        // f2-f4 creates two possible capturers
    "8/8/3k4/8/2pPp3/8/8/3K4 b - d3 0 1",
    // the only legal reply is an en-passant capture of the checking pawn (before and after the push)
    "1R6/8/7R/k7/2p5/K7/1P6/8 w - - 0 1",
    "1R6/8/7R/k7/1Pp5/K7/8/8 b - b3 0 1",
    "8/1p6/k7/2P5/K7/7r/8/1r6 b - - 0 1",
    "8/8/k7/1pP5/K7/7r/8/1r6 w - b6 0 1",
    // pinned pawn on the seventh that can only capture its pinner on the last rank (promotion by capture along the pin)
    "5b2/4P3/8/8/1K6/8/8/7k w - - 0 1",
    "k6b/6P1/5K2/8/8/8/8/8 w - - 0 1",
    "7K/8/8/1k6/8/8/4p3/5B2 b - - 0 1",
    // en-passant capture that gives check with the capturing pawn itself
    "8/p2pk3/8/4P3/8/8/8/4K3 b - - 0 1",
    // stalemate / mate by pawn, knight beside the king's pawn-attack squares
    "7R/k7/1P6/P2B4/1N6/8/8/6K1 b - - 0 1",
    "7k/6N1/7K/8/2B5/8/8/8 b - - 0 1",
    // g-file and b-file en passant, both colours
    "4k3/8/8/8/5p1p/8/6P1/4K3 w - - 0 1",
    "4k3/1p6/8/P1P5/8/8/8/4K3 b - - 0 1",
    "4k3/6p1/8/5P1P/8/8/8/4K3 b - - 0 1",
    // stalemate although an en-passant target is set (the capture would uncover the king along the rank)
    "4k3/pp6/1n6/KPp4r/8/8/8/8 w - c6 0 1",
    "4k3/ppp5/1n6/KP5r/8/8/8/8 b - - 0 1",
    "8/8/8/8/kpP4R/1N6/PP6/4K3 b - c3 0 1",
    // two en-passant captures in a row on the same file
    "4k3/2p5/8/3P4/1p6/8/2P5/4K3 b - - 0 1",
    // maximal move lists: 16 movable men and two en-passant captures (18 entries)
    "rnbqkbnr/1ppp1ppp/p7/3PpP2/P6P/1P2P3/2P3P1/RNBQKBNR w KQkq e6 0 9",
    "rnbqkbnr/ppp1pppp/8/2PpP3/P6P/3P4/1P3PP1/RNBQKBNR w KQkq d6 0 8",
    // en-passant capture by a diagonally pinned pawn along the pin line is the only legal move; en passant that mates
    "1r4kb/8/8/4Pp2/8/8/7r/K7 w - f6 0 1",
    "rn6/k7/8/PpP5/8/8/4B1B1/6K1 w - b6 0 1",
    "6k1/3p4/8/4P3/8/8/8/1B4K1 w - - 0 1",
    // two capturers, one of them pinned
    "3r3k/8/8/3PpP2/8/8/8/3K4 w - e6 0 1",
    "2r4k/3p4/8/2P1P3/8/8/8/2K5 b - - 0 1",
    "3k4/8/8/8/3p1p2/8/4P3/3R3K w - - 0 1",
    // a move gives double check while a third slider pins
    "4k3/3n4/8/8/B3N3/8/8/4R1K1 w - - 0 1",
    "4k3/5p2/8/7B/4N3/8/8/K3R3 w - - 0 1",
    "7B/8/5n2/4k3/8/4N3/K7/4R3 w - - 0 1",
    // own rook behind the two pawns on the capture rank (en passant stays legal)
    "8/8/8/8/r3p2k/8/3P4/6K1 w - - 0 1",
    // two pawns that can promote by capturing on the same square
    "1n2k3/P1P5/8/8/8/8/8/4K3 w - - 0 1",
    // many pieces of one kind reaching one square
    "7K/1k6/8/8/Q6Q/8/8/Q2Q2Q1 w - - 0 1",
    "7k/8/2N1N3/1N3N2/8/1N3N2/2N1N3/K7 w - - 0 1",
    // double pushes that give check, both colours
    "8/8/8/5k2/8/8/4P3/4K3 w - - 0 1",
    "4k3/3p4/8/8/4K3/8/8/8 b - - 0 1",
    "8/1p6/8/8/2K5/8/8/6k1 b - - 0 1",
];

fn place_random(p: &mut Pos, rng: &mut Rng, k: Kind, c: Col) -> bool {
    for _ in 0..40 {
        let s = rng.below(64) as u8;
        if p.sq[s as usize].is_some() {
            continue;
        }
        if k == Kind::P && (rank_of(s) == 0 || rank_of(s) == 7) {
            continue;
        }
        p.sq[s as usize] = Some((k, c));
        return true;
    }
    false
}

fn kings_apart(p: &Pos) -> bool {
    match (p.king_sq(Col::W), p.king_sq(Col::B)) {
        (Some(a), Some(b)) => (file_of(a) - file_of(b)).abs() > 1 || (rank_of(a) - rank_of(b)).abs() > 1,
        _ => false,
    }
}

/// Add up to `extra` random men to a skeleton without exceeding a chess set.
fn fill(p: &mut Pos, rng: &mut Rng, extra: usize) {
    for _ in 0..extra {
        let c = if rng.chance(1, 2) { Col::W } else { Col::B };
        let k = *rng.pick(&[Kind::P, Kind::P, Kind::P, Kind::N, Kind::B, Kind::R, Kind::Q]);
        if p.men(c) >= 16 || (k == Kind::P && p.count(Kind::P, c) >= 8) {
            continue;
        }
        // keep promoted-piece counts plausible (not required by the validity clause, only tidy)
        place_random(p, rng, k, c);
    }
}

fn grant_rights(p: &mut Pos, rng: &mut Rng) {
    let homes = [(WK, 4u8, 7u8, Col::W), (WQ, 4, 0, Col::W), (BK, 60, 63, Col::B), (BQ, 60, 56, Col::B)];
    for (i, ks, rs, c) in homes {
        p.castle[i] = p.sq[ks as usize] == Some((Kind::K, c)) && p.sq[rs as usize] == Some((Kind::R, c)) && rng.chance(3, 4);
    }
}

/// Random valid position with roughly `men` men in total. En-passant state is produced only by
/// letting the model play a double push.
pub fn random_valid(rng: &mut Rng, men: usize, want_ep: bool, home_bias: bool) -> Pos {
    let mut tries = 0;
    let mut want_ep = want_ep;
    loop {
        tries += 1;
        if tries > 60 {
            want_ep = false; // e.g. too few men for a pawn push: give up on en-passant state, never loop forever
        }
        let mut p = Pos::empty();
        if home_bias && rng.chance(2, 3) {
            p.sq[4] = Some((Kind::K, Col::W));
            if rng.chance(2, 3) {
                p.sq[7] = Some((Kind::R, Col::W));
            }
            if rng.chance(2, 3) {
                p.sq[0] = Some((Kind::R, Col::W));
            }
        } else {
            place_random(&mut p, rng, Kind::K, Col::W);
        }
        if home_bias && rng.chance(2, 3) && p.sq[60].is_none() {
            p.sq[60] = Some((Kind::K, Col::B));
            if rng.chance(2, 3) {
                p.sq[63] = Some((Kind::R, Col::B));
            }
            if rng.chance(2, 3) {
                p.sq[56] = Some((Kind::R, Col::B));
            }
        } else {
            place_random(&mut p, rng, Kind::K, Col::B);
        }
        if !kings_apart(&p) {
            continue;
        }
        let have = p.men(Col::W) + p.men(Col::B);
        fill(&mut p, rng, men.saturating_sub(have));
        p.stm = if rng.chance(1, 2) { Col::W } else { Col::B };
        grant_rights(&mut p, rng);
        if p.strict_validity_error().is_some() {
            continue;
        }
        if want_ep {
            // play a double push (preferably one landing beside an enemy pawn)
            let pushes: Vec<Mv> = p.legal_moves().into_iter().filter(|m| p.is_double_push(*m)).collect();
            if pushes.is_empty() {
                continue;
            }
            let beside: Vec<Mv> = pushes.iter().cloned().filter(|m| p.make(*m).ep_pawn_beside()).collect();
            let m = if !beside.is_empty() && rng.chance(4, 5) { *rng.pick(&beside) } else { *rng.pick(&pushes) };
            p = p.make(m);
            p.halfmove = 0;
        }
        debug_assert!(p.strict_validity_error().is_none());
        return p;
    }
}

pub fn endgame(rng: &mut Rng) -> Pos {
    let sets: [&[(Kind, Col)]; 8] = [
        &[(Kind::Q, Col::W)],
        &[(Kind::R, Col::W)],
        &[(Kind::P, Col::W)],
        &[(Kind::B, Col::W), (Kind::N, Col::W)],
        &[(Kind::Q, Col::W), (Kind::R, Col::B)],
        &[(Kind::R, Col::B)],
        &[(Kind::Q, Col::B)],
        &[(Kind::P, Col::B), (Kind::P, Col::W)],
    ];
    let set = sets[rng.usize(sets.len())];
    loop {
        let mut p = Pos::empty();
        place_random(&mut p, rng, Kind::K, Col::W);
        place_random(&mut p, rng, Kind::K, Col::B);
        if !kings_apart(&p) {
            continue;
        }
        for (k, c) in set.iter() {
            place_random(&mut p, rng, *k, *c);
        }
        p.stm = if rng.chance(1, 2) { Col::W } else { Col::B };
        if p.strict_validity_error().is_none() {
            return p;
        }
    }
}

/// Mirror a White-oriented skeleton for Black half of the time.
fn maybe_flip(p: Pos, rng: &mut Rng) -> Pos {
    if rng.chance(1, 2) {
        p.mirror_colour()
    } else {
        p
    }
}

/// Pattern generators. Each returns a valid position (retrying internally) in which a rare rule is
/// one move away or already in force.
pub fn pattern(rng: &mut Rng) -> (Pos, &'static str) {
    pattern_with(rng, None)
}

/// `forced`: always draw that pattern kind (a profile's favourite), otherwise uniformly.
pub fn pattern_with(rng: &mut Rng, forced: Option<u64>) -> (Pos, &'static str) {
    for _ in 0..200 {
        let which = match forced {
            Some(k) => k,
            None => rng.below(21),
        };
        let mut p = Pos::empty();
        let name: &'static str;
        match which {
            0 => {
                // en-passant capture with own king and enemy rook/queen on the capture rank, only the
                // two pawns between them: Black is about to double-push
                name = "ep_rank_pin";
                let pf = rng.range(1, 6) as i32; // file of black pawn
                let wf = if rng.chance(1, 2) { pf - 1 } else { pf + 1 };
                let (lo, hi) = (pf.min(wf), pf.max(wf));
                if lo == 0 || hi == 7 {
                    continue;
                }
                let kf = rng.range(0, (lo - 1) as u64) as i32;
                let rf = rng.range((hi + 1) as u64, 7) as i32;
                let (kf, rf) = if rng.chance(1, 2) { (kf, rf) } else { (rf, kf) };
                p.sq[mk(kf, 4).unwrap() as usize] = Some((Kind::K, Col::W));
                let slider_col = if rng.chance(1, 4) { Col::W } else { Col::B };
                p.sq[mk(rf, 4).unwrap() as usize] = Some((if rng.chance(1, 2) { Kind::R } else { Kind::Q }, slider_col));
                p.sq[mk(wf, 4).unwrap() as usize] = Some((Kind::P, Col::W));
                p.sq[mk(pf, 6).unwrap() as usize] = Some((Kind::P, Col::B));
                place_random(&mut p, rng, Kind::K, Col::B);
                if rng.chance(1, 3) {
                    // non-pinned variant: one more man on the rank
                    if let Some(s) = mk(rng.range(0, 7) as i32, 4) {
                        if p.sq[s as usize].is_none() {
                            p.sq[s as usize] = Some((Kind::N, if rng.chance(1, 2) { Col::W } else { Col::B }));
                        }
                    }
                }
                p.stm = Col::B;
            }
            1 => {
                // en-passant capture whose removed pawn uncovers a bishop/queen diagonal
                name = "ep_diagonal_uncover";
                // black pawn will land on (pf,4); white king and black bishop on a diagonal through it
                let pf = rng.range(1, 6) as i32;
                let d = if rng.chance(1, 2) { 1 } else { -1 };
                let k1 = rng.range(1, 3) as i32;
                let k2 = rng.range(1, 3) as i32;
                let ks = mk(pf + d * k1, 4 - k1);
                let bs = mk(pf - d * k2, 4 + k2);
                let (ks, bs) = match (ks, bs) {
                    (Some(a), Some(b)) => (a, b),
                    _ => continue,
                };
                p.sq[ks as usize] = Some((Kind::K, Col::W));
                p.sq[bs as usize] = Some((if rng.chance(1, 2) { Kind::B } else { Kind::Q }, Col::B));
                let wf = if rng.chance(1, 2) { pf - 1 } else { pf + 1 };
                if p.sq[mk(wf, 4).unwrap() as usize].is_some() || p.sq[mk(pf, 6).unwrap() as usize].is_some() {
                    continue;
                }
                p.sq[mk(wf, 4).unwrap() as usize] = Some((Kind::P, Col::W));
                p.sq[mk(pf, 6).unwrap() as usize] = Some((Kind::P, Col::B));
                place_random(&mut p, rng, Kind::K, Col::B);
                p.stm = Col::B;
            }
            2 => {
                // castling with one of the king's origin / transit / target squares (or b1, or the rook) attacked
                name = "castle_attacked_square";
                p.sq[4] = Some((Kind::K, Col::W));
                p.sq[7] = Some((Kind::R, Col::W));
                p.sq[0] = Some((Kind::R, Col::W));
                p.castle[WK] = true;
                p.castle[WQ] = true;
                let target_file = rng.range(0, 7) as i32;
                let att = *rng.pick(&[Kind::R, Kind::B, Kind::N, Kind::Q, Kind::P]);
                let s = match att {
                    Kind::R | Kind::Q => mk(target_file, rng.range(2, 7) as i32),
                    Kind::B => {
                        let k = rng.range(1, 5) as i32;
                        mk(target_file + if rng.chance(1, 2) { k } else { -k }, k)
                    }
                    Kind::N => {
                        let (df, dr) = *rng.pick(&[(1, 2), (-1, 2), (2, 1), (-2, 1)]);
                        mk(target_file + df, dr)
                    }
                    _ => mk(target_file + if rng.chance(1, 2) { 1 } else { -1 }, 1),
                };
                match s {
                    Some(s) if p.sq[s as usize].is_none() => p.sq[s as usize] = Some((att, Col::B)),
                    _ => continue,
                }
                place_random(&mut p, rng, Kind::K, Col::B);
                p.stm = Col::W;
            }
            3 => {
                // a man pinned on one of the eight directions
                name = "pinned_man";
                let ks = rng.below(64) as u8;
                p.sq[ks as usize] = Some((Kind::K, Col::W));
                let dirs = [(1, 0), (-1, 0), (0, 1), (0, -1), (1, 1), (1, -1), (-1, 1), (-1, -1)];
                let (df, dr) = *rng.pick(&dirs);
                let a = rng.range(1, 3) as i32;
                let b = a + rng.range(1, 3) as i32;
                let ps = mk(file_of(ks) + df * a, rank_of(ks) + dr * a);
                let ss = mk(file_of(ks) + df * b, rank_of(ks) + dr * b);
                let (ps, ss) = match (ps, ss) {
                    (Some(x), Some(y)) => (x, y),
                    _ => continue,
                };
                let man = *rng.pick(&[Kind::P, Kind::N, Kind::B, Kind::R, Kind::Q]);
                if man == Kind::P && (rank_of(ps) == 0 || rank_of(ps) == 7) {
                    continue;
                }
                p.sq[ps as usize] = Some((man, Col::W));
                let slider = if df == 0 || dr == 0 {
                    *rng.pick(&[Kind::R, Kind::Q])
                } else {
                    *rng.pick(&[Kind::B, Kind::Q])
                };
                p.sq[ss as usize] = Some((slider, Col::B));
                place_random(&mut p, rng, Kind::K, Col::B);
                p.stm = Col::W;
            }
            4 => {
                // double check by a pair of kinds (set up directly; valid by the clause)
                name = "double_check";
                let ks = rng.below(64) as u8;
                p.sq[ks as usize] = Some((Kind::K, Col::W));
                let (df, dr) = *rng.pick(&[(1, 2), (2, 1), (2, -1), (1, -2), (-1, -2), (-2, -1), (-2, 1), (-1, 2)]);
                match mk(file_of(ks) + df, rank_of(ks) + dr) {
                    Some(s) => p.sq[s as usize] = Some((Kind::N, Col::B)),
                    None => continue,
                }
                let (df, dr) = *rng.pick(&[(1, 0), (-1, 0), (0, 1), (0, -1), (1, 1), (1, -1), (-1, 1), (-1, -1)]);
                let k = rng.range(1, 4) as i32;
                match mk(file_of(ks) + df * k, rank_of(ks) + dr * k) {
                    Some(s) if p.sq[s as usize].is_none() => {
                        p.sq[s as usize] = Some((if df == 0 || dr == 0 { Kind::R } else { Kind::B }, Col::B))
                    }
                    _ => continue,
                }
                place_random(&mut p, rng, Kind::K, Col::B);
                p.stm = Col::W;
            }
            5 => {
                // promotion by push and by capture, also onto a rook's home square with rights present
                name = "promotion";
                let f = rng.range(0, 7) as i32;
                p.sq[mk(f, 6).unwrap() as usize] = Some((Kind::P, Col::W));
                p.sq[60] = Some((Kind::K, Col::B));
                if rng.chance(1, 2) {
                    p.sq[63] = Some((Kind::R, Col::B));
                    p.castle[BK] = true;
                }
                if rng.chance(1, 2) {
                    p.sq[56] = Some((Kind::R, Col::B));
                    p.castle[BQ] = true;
                }
                if rng.chance(1, 2) {
                    if let Some(s) = mk(f + if rng.chance(1, 2) { 1 } else { -1 }, 7) {
                        if p.sq[s as usize].is_none() {
                            p.sq[s as usize] = Some((*rng.pick(&[Kind::N, Kind::B, Kind::R, Kind::Q]), Col::B));
                        }
                    }
                }
                place_random(&mut p, rng, Kind::K, Col::W);
                p.stm = Col::W;
            }
            6 => {
                // en-passant capture as the only answer to a pawn check
                name = "ep_answers_pawn_check";
                // white king on (pf±1, 3): black pawn pushing to (pf,4) gives check; white pawn beside on rank 5 (index 4)
                let pf = rng.range(1, 6) as i32;
                let kf = pf + if rng.chance(1, 2) { 1 } else { -1 };
                p.sq[mk(kf, 3).unwrap() as usize] = Some((Kind::K, Col::W));
                let wf = if rng.chance(1, 2) { pf - 1 } else { pf + 1 };
                if mk(wf, 4).is_none() {
                    continue;
                }
                p.sq[mk(wf, 4).unwrap() as usize] = Some((Kind::P, Col::W));
                p.sq[mk(pf, 6).unwrap() as usize] = Some((Kind::P, Col::B));
                place_random(&mut p, rng, Kind::K, Col::B);
                p.stm = Col::B;
            }
            7 => {
                // king beside a man that is / is not defended; knight-promotion that gives check
                name = "king_capture_or_knight_promo";
                let ks = rng.below(64) as u8;
                p.sq[ks as usize] = Some((Kind::K, Col::W));
                let (df, dr) = *rng.pick(&[(1, 0), (1, 1), (0, 1), (-1, 1), (-1, 0), (-1, -1), (0, -1), (1, -1)]);
                match mk(file_of(ks) + df, rank_of(ks) + dr) {
                    Some(s) => p.sq[s as usize] = Some((*rng.pick(&[Kind::N, Kind::B, Kind::R]), Col::B)),
                    None => continue,
                }
                place_random(&mut p, rng, Kind::K, Col::B);
                if rng.chance(1, 2) {
                    let k = *rng.pick(&[Kind::R, Kind::B, Kind::N, Kind::Q]);
                    place_random(&mut p, rng, k, Col::B);
                }
                let f = rng.range(0, 7) as i32;
                if p.sq[mk(f, 6).unwrap() as usize].is_none() {
                    p.sq[mk(f, 6).unwrap() as usize] = Some((Kind::P, Col::W));
                }
                p.stm = Col::W;
            }
            9 => {
                // the only legal reply to a pawn check is the en-passant capture of the checker
                name = "ep_only_reply";
                let t = *rng.pick(&["1R6/8/7R/k7/2p5/K7/1P6/8 w - - 0 1", "1Q6/8/7R/k7/2p5/K7/1P6/8 w - - 0 1", "1R6/8/6Q1/k7/2p5/K7/1P6/8 w - - 0 1"]);
                p = Pos::from_fen(t).unwrap();
                if rng.chance(1, 2) {
                    p = p.mirror_file();
                }
                let q = maybe_flip(p, rng);
                if q.strict_validity_error().is_none() {
                    return (q, name);
                }
                continue;
            }
            10 => {
                // a pawn on the seventh, diagonally pinned by a bishop/queen on the last rank next to it:
                // its only moves are the four capture-promotions along the pin
                name = "pinned_promo_capture";
                let f = rng.range(0, 7) as i32;
                let d = if rng.chance(1, 2) { 1 } else { -1 };
                let k = rng.range(1, 4) as i32;
                let (ps, ss, ks) = match (mk(f, 6), mk(f + d, 7), mk(f - d * k, 6 - k)) {
                    (Some(a), Some(b), Some(c)) => (a, b, c),
                    _ => continue,
                };
                p.sq[ps as usize] = Some((Kind::P, Col::W));
                p.sq[ss as usize] = Some((if rng.chance(1, 2) { Kind::B } else { Kind::Q }, Col::B));
                p.sq[ks as usize] = Some((Kind::K, Col::W));
                place_random(&mut p, rng, Kind::K, Col::B);
                p.stm = Col::W;
            }
            11 => {
                // rejection sampling for positions with very few legal moves (status boundaries)
                name = "few_legal_moves";
                let mut best: Option<(usize, Pos)> = None;
                for _ in 0..60 {
                    let men = rng.range(3, 9) as usize;
                    let q = random_valid(rng, men, false, false);
                    let n = q.legal_moves().len();
                    if best.as_ref().map_or(true, |b| n < b.0) {
                        best = Some((n, q));
                    }
                    if n <= 1 {
                        break;
                    }
                }
                return (best.unwrap().1, name);
            }
            13 => {
                // a double push landing between two enemy pawns, one of which may be pinned (file or diagonal)
                name = "ep_two_capturers";
                let pf = rng.range(1, 6) as i32;
                p.sq[mk(pf, 6).unwrap() as usize] = Some((Kind::P, Col::B));
                p.sq[mk(pf - 1, 4).unwrap() as usize] = Some((Kind::P, Col::W));
                p.sq[mk(pf + 1, 4).unwrap() as usize] = Some((Kind::P, Col::W));
                let side = if rng.chance(1, 2) { -1 } else { 1 };
                let cf = pf + side; // the capturer to be pinned
                match rng.below(3) {
                    0 => {
                        // file pin: king below, rook above
                        let kr = rng.range(0, 3) as i32;
                        let rr = rng.range(5, 7) as i32;
                        p.sq[mk(cf, kr).unwrap() as usize] = Some((Kind::K, Col::W));
                        if p.sq[mk(cf, rr).unwrap() as usize].is_none() {
                            p.sq[mk(cf, rr).unwrap() as usize] = Some((*rng.pick(&[Kind::R, Kind::Q]), Col::B));
                        }
                    }
                    1 => {
                        // diagonal pin
                        let d = if rng.chance(1, 2) { 1 } else { -1 };
                        let k = rng.range(1, 3) as i32;
                        match (mk(cf - d * k, 4 - k), mk(cf + d * 2, 6)) {
                            (Some(ks), Some(bs)) if p.sq[ks as usize].is_none() && p.sq[bs as usize].is_none() => {
                                p.sq[ks as usize] = Some((Kind::K, Col::W));
                                p.sq[bs as usize] = Some((*rng.pick(&[Kind::B, Kind::Q]), Col::B));
                            }
                            _ => continue,
                        }
                    }
                    _ => {
                        place_random(&mut p, rng, Kind::K, Col::W);
                    }
                }
                place_random(&mut p, rng, Kind::K, Col::B);
                p.stm = Col::B;
            }
            14 => {
                // many men of one kind that can reach the same squares: disambiguation stress
                name = "many_same_pieces";
                let k = *rng.pick(&[Kind::N, Kind::Q, Kind::R, Kind::B]);
                place_random(&mut p, rng, Kind::K, Col::W);
                place_random(&mut p, rng, Kind::K, Col::B);
                // up to the most that promotions allow: ten knights / bishops / rooks, nine queens
                let most = if k == Kind::Q { 9 } else { 10 };
                let n = if rng.chance(1, 3) { most - rng.below(2) } else { rng.range(4, 8) };
                for _ in 0..n {
                    place_random(&mut p, rng, k, Col::W);
                }
                if n >= 9 {
                    // what is left of the army: the other original officers sometimes, pawns that were not promoted
                    let promoted = n - if k == Kind::Q { 1 } else { 2 };
                    for _ in 0..rng.below(9 - promoted) {
                        let s = rng.range(8, 55) as usize;
                        if p.sq[s].is_none() && p.men(Col::W) < 16 {
                            p.sq[s] = Some((Kind::P, Col::W));
                        }
                    }
                }
                p.stm = if rng.chance(1, 4) { Col::B } else { Col::W };
            }
            19 => {
                // a king in the crossfire of many enemy sliders (promoted material): nine or more stand on its lines,
                // most of them masked by a man next to the king
                name = "king_in_slider_crossfire";
                let ks = rng.below(64) as u8;
                p.sq[ks as usize] = Some((Kind::K, Col::B));
                let mut sliders = 0;
                let want = rng.range(8, 13);
                for (i, (df, dr)) in [(1, 0), (-1, 0), (0, 1), (0, -1), (1, 1), (1, -1), (-1, 1), (-1, -1)].iter().enumerate() {
                    let (mut f, mut r) = (file_of(ks) + df, rank_of(ks) + dr);
                    let mut first = true;
                    while let Some(t) = mk(f, r) {
                        if first {
                            first = false;
                            if rng.chance(5, 6) {
                                // the mask: a man that does not attack along this line
                                let m = match rng.below(4) {
                                    0 => (Kind::N, Col::B),
                                    1 => (Kind::N, Col::W),
                                    2 => (if i < 4 { Kind::B } else { Kind::R }, Col::W),
                                    _ => (if i < 4 { Kind::B } else { Kind::R }, Col::B),
                                };
                                if p.men(m.1) < 15 {
                                    p.sq[t as usize] = Some(m);
                                }
                            }
                        } else if sliders < want && rng.chance(3, 5) && p.men(Col::W) < 15 {
                            let k = if rng.chance(1, 2) { Kind::Q } else if i < 4 { Kind::R } else { Kind::B };
                            p.sq[t as usize] = Some((k, Col::W));
                            sliders += 1;
                        }
                        f += df;
                        r += dr;
                    }
                }
                place_random(&mut p, rng, Kind::K, Col::W);
                p.stm = if rng.chance(3, 4) { Col::W } else { Col::B };
                if p.strict_validity_error().is_some() {
                    p.stm = p.stm.other();
                }
            }
            21 => {
                // Black, in check along a diagonal, can interpose with a double push; the white pawn beside the landing
                // square can then take en passant and reopen the line (a discovered check through the captured pawn's square)
                name = "ep_capture_discovers_check";
                let pf = rng.range(1, 6) as i32;
                let side = if rng.chance(1, 2) { -1 } else { 1 };
                let (dx, dy) = *rng.pick(&[(1, 1), (1, -1), (-1, 1), (-1, -1)]);
                let (j, k) = (rng.range(1, 3) as i32, rng.range(1, 3) as i32);
                let (ks, xs) = match (mk(pf + dx * j, 4 + dy * j), mk(pf - dx * k, 4 - dy * k)) {
                    (Some(a), Some(b)) => (a, b),
                    _ => continue,
                };
                p.sq[mk(pf, 6).unwrap() as usize] = Some((Kind::P, Col::B));
                p.sq[mk(pf + side, 4).unwrap() as usize] = Some((Kind::P, Col::W));
                if p.sq[ks as usize].is_some() || p.sq[xs as usize].is_some() {
                    continue;
                }
                p.sq[ks as usize] = Some((Kind::K, Col::B));
                p.sq[xs as usize] = Some((if rng.chance(1, 2) { Kind::B } else { Kind::Q }, Col::W));
                // box the king in with its own men
                for (fx, fy) in [(1, 0), (-1, 0), (0, 1), (0, -1), (1, 1), (1, -1), (-1, 1), (-1, -1)] {
                    if let Some(t) = mk(file_of(ks) + fx, rank_of(ks) + fy) {
                        let on_line = (1..8).any(|i| mk(pf + dx * i, 4 + dy * i) == Some(t) || mk(pf - dx * i, 4 - dy * i) == Some(t)) || t == mk(pf, 4).unwrap() || t == mk(pf, 5).unwrap();
                        if p.sq[t as usize].is_none() && !on_line && rng.chance(5, 6) && p.men(Col::B) < 14 {
                            let kk = if rank_of(t) == 0 || rank_of(t) == 7 { *rng.pick(&[Kind::N, Kind::B, Kind::R]) } else { *rng.pick(&[Kind::P, Kind::P, Kind::P, Kind::N]) };
                            p.sq[t as usize] = Some((kk, Col::B));
                        }
                    }
                }
                place_random(&mut p, rng, Kind::K, Col::W);
                p.stm = Col::B;
            }
            22 => {
                // a white pawn on its home square is all that shields the black king from a white slider (diagonal or
                // second rank); its double push lands beside a black pawn: discovered check with en-passant state
                name = "double_push_uncovers_check";
                let pf = rng.range(1, 6) as i32;
                let side = if rng.chance(1, 2) { -1 } else { 1 };
                let (dx, dy) = *rng.pick(&[(1, 1), (-1, 1), (1, 0), (-1, 0), (1, -1), (-1, -1)]);
                let (j, k) = (rng.range(1, 5) as i32, rng.range(1, 3) as i32);
                let (ks, xs) = match (mk(pf + dx * j, 1 + dy * j), mk(pf - dx * k, 1 - dy * k)) {
                    (Some(a), Some(b)) => (a, b),
                    _ => continue,
                };
                p.sq[mk(pf, 1).unwrap() as usize] = Some((Kind::P, Col::W));
                p.sq[mk(pf + side, 3).unwrap() as usize] = Some((Kind::P, Col::B));
                if p.sq[ks as usize].is_some() || p.sq[xs as usize].is_some() {
                    continue;
                }
                p.sq[ks as usize] = Some((Kind::K, Col::B));
                let slider = if dy == 0 { if rng.chance(1, 2) { Kind::R } else { Kind::Q } } else if rng.chance(1, 2) { Kind::B } else { Kind::Q };
                p.sq[xs as usize] = Some((slider, Col::W));
                place_random(&mut p, rng, Kind::K, Col::W);
                for _ in 0..rng.below(4) {
                    let kk = *rng.pick(&[Kind::N, Kind::P, Kind::B]);
                    let c = if rng.chance(1, 2) { Col::W } else { Col::B };
                    let t = rng.range(16, 47) as usize;
                    if p.sq[t].is_none() {
                        p.sq[t] = Some((kk, c));
                    }
                }
                p.stm = Col::W;
            }
            23 => {
                // the only pawn that can take en passant is pinned - along the very diagonal of the capture, so the capture is legal
                name = "ep_capturer_pinned_on_capture_diagonal";
                let pf = rng.range(1, 6) as i32;
                let side = if rng.chance(1, 2) { -1 } else { 1 };
                let cf = pf + side; // the capturer's file; it moves from (cf,4) to (pf,5)
                let dx = pf - cf;
                let (j, k) = (rng.range(1, 2) as i32, rng.range(1, 3) as i32);
                let (xs, ks) = match (mk(pf + dx * j, 5 + j), mk(cf - dx * k, 4 - k)) {
                    (Some(a), Some(b)) => (a, b),
                    _ => continue,
                };
                p.sq[mk(cf, 4).unwrap() as usize] = Some((Kind::P, Col::W));
                p.sq[ks as usize] = Some((Kind::K, Col::W));
                p.sq[xs as usize] = Some((if rng.chance(1, 2) { Kind::B } else { Kind::Q }, Col::B));
                if !place_random(&mut p, rng, Kind::K, Col::B) {
                    continue;
                }
                for _ in 0..rng.below(3) {
                    let kk = *rng.pick(&[Kind::N, Kind::N, Kind::B, Kind::R]);
                    let c = if rng.chance(1, 2) { Col::W } else { Col::B };
                    place_random(&mut p, rng, kk, c);
                }
                if rng.chance(1, 2) {
                    // before the push
                    if p.sq[mk(pf, 6).unwrap() as usize].is_some() || p.sq[mk(pf, 5).unwrap() as usize].is_some() || p.sq[mk(pf, 4).unwrap() as usize].is_some() {
                        continue;
                    }
                    p.sq[mk(pf, 6).unwrap() as usize] = Some((Kind::P, Col::B));
                    p.stm = Col::B;
                } else {
                    if p.sq[mk(pf, 6).unwrap() as usize].is_some() || p.sq[mk(pf, 5).unwrap() as usize].is_some() || p.sq[mk(pf, 4).unwrap() as usize].is_some() {
                        continue;
                    }
                    p.sq[mk(pf, 4).unwrap() as usize] = Some((Kind::P, Col::B));
                    p.ep = mk(pf, 5);
                    p.stm = Col::W;
                }
            }
            24 => {
                // a double push landing between two enemy pawns, with the enemy king and the pusher's rook / queen on that
                // rank on opposite sides: either capture takes only ONE pawn off the rank, so both are legal
                name = "ep_two_capturers_on_the_kings_rank";
                let pf = rng.range(2, 5) as i32;
                let kf = rng.range(0, (pf - 2) as u64) as i32;
                let rf = rng.range((pf + 2) as u64, 7) as i32;
                let (kf, rf) = if rng.chance(1, 2) { (kf, rf) } else { (rf, kf) };
                p.sq[mk(pf, 6).unwrap() as usize] = Some((Kind::P, Col::B));
                p.sq[mk(pf - 1, 4).unwrap() as usize] = Some((Kind::P, Col::W));
                p.sq[mk(pf + 1, 4).unwrap() as usize] = Some((Kind::P, Col::W));
                p.sq[mk(kf, 4).unwrap() as usize] = Some((Kind::K, Col::W));
                p.sq[mk(rf, 4).unwrap() as usize] = Some((if rng.chance(1, 2) { Kind::R } else { Kind::Q }, Col::B));
                let mut tries = 0;
                loop {
                    tries += 1;
                    let t = rng.below(64) as usize;
                    if p.sq[t].is_none() && rank_of(t as u8) != 4 {
                        p.sq[t] = Some((Kind::K, Col::B));
                        break;
                    }
                    if tries > 50 {
                        break;
                    }
                }
                p.stm = Col::B;
            }
            20 => {
                // the only legal moves are the capture-promotions of a diagonally pinned pawn (rejection sampling)
                name = "only_pinned_promotion";
                let mut found = None;
                for _ in 0..300 {
                    let mut q = Pos::empty();
                    let f = rng.range(0, 7) as i32;
                    let d = if rng.chance(1, 2) { 1 } else { -1 };
                    let k = rng.range(1, 6) as i32;
                    let (ps, ss, ks) = match (mk(f, 6), mk(f + d, 7), mk(f - d * k, 6 - k)) {
                        (Some(a), Some(b), Some(c)) => (a, b, c),
                        _ => continue,
                    };
                    q.sq[ps as usize] = Some((Kind::P, Col::W));
                    q.sq[ss as usize] = Some((if rng.chance(1, 2) { Kind::B } else { Kind::Q }, Col::B));
                    q.sq[ks as usize] = Some((Kind::K, Col::W));
                    if !place_random(&mut q, rng, Kind::K, Col::B) {
                        continue;
                    }
                    for _ in 0..rng.range(2, 4) {
                        let kk = *rng.pick(&[Kind::R, Kind::R, Kind::Q, Kind::N, Kind::B]);
                        place_random(&mut q, rng, kk, Col::B);
                    }
                    q.stm = Col::W;
                    if !kings_apart(&q) || q.strict_validity_error().is_some() || q.in_check() {
                        continue;
                    }
                    let lm = q.legal_moves();
                    if !lm.is_empty() && lm.iter().all(|m| m.from == ps && m.promo.is_some()) {
                        found = Some(q);
                        break;
                    }
                }
                match found {
                    Some(q) => p = q,
                    None => continue,
                }
            }
            15 => {
                // two pawns on the seventh, two files apart, an enemy man between them on the last rank
                name = "shared_promotion_square";
                let f = rng.range(1, 6) as i32;
                p.sq[mk(f - 1, 6).unwrap() as usize] = Some((Kind::P, Col::W));
                p.sq[mk(f + 1, 6).unwrap() as usize] = Some((Kind::P, Col::W));
                p.sq[mk(f, 7).unwrap() as usize] = Some((*rng.pick(&[Kind::N, Kind::B, Kind::R, Kind::Q]), Col::B));
                place_random(&mut p, rng, Kind::K, Col::W);
                place_random(&mut p, rng, Kind::K, Col::B);
                p.stm = Col::W;
            }
            16 => {
                // spread-out positions: men on alternating files of every rank, which makes the FEN placement
                // field as long as it can get (up to 71 characters, 85 for the whole record)
                name = "spread_out_long_fen";
                let mut spots: Vec<Sq> = vec![];
                for r in 0..8 {
                    let off = rng.below(2) as i32;
                    for k in 0..4 {
                        spots.push(mk(off + 2 * k, r).unwrap());
                    }
                }
                rng.shuffle(&mut spots);
                let n = rng.range(26, 32) as usize;
                let mut men: Vec<(Kind, Col)> = vec![(Kind::K, Col::W), (Kind::K, Col::B)];
                for c in [Col::W, Col::B] {
                    let mut pawns = 0;
                    for _ in 0..(n / 2 - 1) {
                        let k = *rng.pick(&[Kind::P, Kind::P, Kind::N, Kind::B, Kind::R, Kind::Q]);
                        if k == Kind::P && pawns >= 8 {
                            men.push((Kind::N, c));
                        } else {
                            if k == Kind::P {
                                pawns += 1;
                            }
                            men.push((k, c));
                        }
                    }
                }
                let mut ok = true;
                for (i, (k, c)) in men.iter().enumerate() {
                    // pawns may not stand on the back ranks: look for a later free spot
                    let mut j = i;
                    while j < spots.len() && *k == Kind::P && (rank_of(spots[j]) == 0 || rank_of(spots[j]) == 7) {
                        j += 1;
                    }
                    if j >= spots.len() {
                        ok = false;
                        break;
                    }
                    spots.swap(i, j);
                    p.sq[spots[i] as usize] = Some((*k, *c));
                }
                if !ok {
                    continue;
                }
                p.stm = if rng.chance(1, 2) { Col::W } else { Col::B };
                grant_rights(&mut p, rng);
                if !kings_apart(&p) || p.strict_validity_error().is_some() {
                    continue;
                }
                return (p, name);
            }
            17 => {
                // both sides have a home pawn whose double step lands beside an enemy pawn: en-passant state in
                // consecutive plies, often on the same or a neighbouring file
                name = "consecutive_double_pushes";
                let f = rng.range(1, 6) as i32;
                let g = if rng.chance(1, 2) { f } else { f + if rng.chance(1, 2) { 1 } else { -1 } };
                p.sq[mk(f, 6).unwrap() as usize] = Some((Kind::P, Col::B));
                p.sq[mk(g, 1).unwrap() as usize] = Some((Kind::P, Col::W));
                // white pawn beside f on rank 5 (index 4), black pawn beside g on rank 4 (index 3)
                let wf = f + if rng.chance(1, 2) { 1 } else { -1 };
                let bf = g + if rng.chance(1, 2) { 1 } else { -1 };
                match (mk(wf, 4), mk(bf, 3)) {
                    (Some(a), Some(b)) => {
                        p.sq[a as usize] = Some((Kind::P, Col::W));
                        p.sq[b as usize] = Some((Kind::P, Col::B));
                    }
                    _ => continue,
                }
                place_random(&mut p, rng, Kind::K, Col::W);
                place_random(&mut p, rng, Kind::K, Col::B);
                p.stm = if rng.chance(1, 2) { Col::W } else { Col::B };
            }
            18 => {
                // a slider whose rays are (almost) completely occupied: the densest occupancies of the attack tables
                name = "slider_fully_blocked";
                let s0 = rng.below(64) as u8;
                let rookish = rng.chance(1, 2);
                let kind = if rng.chance(1, 2) { Kind::Q } else if rookish { Kind::R } else { Kind::B };
                let me = if rng.chance(1, 2) { Col::W } else { Col::B };
                p.sq[s0 as usize] = Some((kind, me));
                let dirs: &[(i32, i32)] = if rookish { &[(1, 0), (-1, 0), (0, 1), (0, -1)] } else { &[(1, 1), (1, -1), (-1, 1), (-1, -1)] };
                let skip = rng.below(3); // leave up to two ray squares empty
                let mut left = skip;
                let mut pawns = [0usize; 2];
                for (df, dr) in dirs.iter() {
                    let (mut f, mut r) = (file_of(s0) + df, rank_of(s0) + dr);
                    while let Some(t) = mk(f, r) {
                        if left > 0 && rng.chance(1, 6) {
                            left -= 1;
                        } else if p.sq[t as usize].is_none() {
                            let c = if rng.chance(2, 3) { me } else { me.other() };
                            let mut k = *rng.pick(&[Kind::P, Kind::P, Kind::N, Kind::B, Kind::R]);
                            if k == Kind::P && (rank_of(t) == 0 || rank_of(t) == 7 || pawns[c.idx()] >= 8) {
                                k = Kind::N;
                            }
                            if k == Kind::P {
                                pawns[c.idx()] += 1;
                            }
                            if p.men(c) < 15 {
                                p.sq[t as usize] = Some((k, c));
                            }
                        }
                        f += df;
                        r += dr;
                    }
                }
                place_random(&mut p, rng, Kind::K, Col::W);
                place_random(&mut p, rng, Kind::K, Col::B);
                p.stm = me;
                if !kings_apart(&p) || p.strict_validity_error().is_some() {
                    p.stm = me.other();
                    if !kings_apart(&p) || p.strict_validity_error().is_some() {
                        continue;
                    }
                }
                return (p, name);
            }
            25 => {
                // an a- or h-pawn on its home square with the double push still to be played; enemy pawns stand on the
                // squares a one-bit shift of the landing square wraps to (h3 for a4, a5 for h4) and elsewhere on the far
                // edge, none beside the landing square; few other men, so that the push is played often
                name = "edge_double_push_pending";
                let f = if rng.chance(1, 2) { 0 } else { 7 };
                p.sq[mk(f, 1).unwrap() as usize] = Some((Kind::P, Col::W));
                let d = mk(f, 3).unwrap() as i32;
                let w = if f == 0 { d - 1 } else { d + 1 };
                p.sq[w as usize] = Some((Kind::P, Col::B));
                if rng.chance(1, 2) {
                    let t = mk(7 - f, rng.range(2, 5) as i32).unwrap() as usize;
                    if p.sq[t].is_none() {
                        p.sq[t] = Some((Kind::P, Col::B));
                    }
                }
                place_random(&mut p, rng, Kind::K, Col::W);
                place_random(&mut p, rng, Kind::K, Col::B);
                for _ in 0..rng.below(3) {
                    let c = if rng.chance(1, 2) { Col::W } else { Col::B };
                    place_random(&mut p, rng, Kind::N, c);
                }
                p.stm = if rng.chance(3, 4) { Col::W } else { Col::B };
            }
            12 => {
                // the side to move is in check by a distant slider and has (almost) a single reply of a chosen
                // class: pawn double-step / single-step interposition, knight interposition, capture of the checker
                name = "unique_reply_to_check";
                let q = unique_reply(rng);
                return (q, name);
            }
            _ => {
                // burnable rights and a few shuffling pieces (C11 workloads)
                name = "rights_and_shufflers";
                p.sq[4] = Some((Kind::K, Col::W));
                p.sq[60] = Some((Kind::K, Col::B));
                if rng.chance(3, 4) {
                    p.sq[7] = Some((Kind::R, Col::W));
                    p.castle[WK] = true;
                }
                if rng.chance(3, 4) {
                    p.sq[0] = Some((Kind::R, Col::W));
                    p.castle[WQ] = true;
                }
                if rng.chance(1, 2) {
                    p.sq[63] = Some((Kind::R, Col::B));
                    p.castle[BK] = true;
                }
                if rng.chance(1, 2) {
                    p.sq[56] = Some((Kind::R, Col::B));
                    p.castle[BQ] = true;
                }
                for _ in 0..rng.range(1, 3) {
                    let c = if rng.chance(1, 2) { Col::W } else { Col::B };
                    place_random(&mut p, rng, Kind::N, c);
                }
                p.stm = if rng.chance(1, 2) { Col::W } else { Col::B };
                if rng.chance(1, 2) {
                    // pawns on the edge files: a double push there has no neighbour on one side, and enemy pawns
                    // stand on the far edge of the neighbouring ranks; the start position is the one right AFTER
                    // such a push, so its first occurrence opens the repetition window
                    let me = p.stm;
                    let (home, dir) = if me == Col::W { (1, 1) } else { (6, -1) };
                    let f = if rng.chance(1, 2) { 0 } else { 7 };
                    // the square a one-bit shift of the push destination wraps to (h3 for a4, a5 for h4, h4 for a5, a6 for h5)
                    if rng.chance(3, 4) {
                        let d = mk(f, home + 2 * dir).unwrap() as i32;
                        let w = if f == 0 { d - 1 } else { d + 1 };
                        if (8..56).contains(&w) && p.sq[w as usize].is_none() {
                            p.sq[w as usize] = Some((Kind::P, me.other()));
                        }
                    }
                    if let Some(s) = mk(f, home) {
                        if p.sq[s as usize].is_none() {
                            p.sq[s as usize] = Some((Kind::P, me));
                        }
                    }
                    for _ in 0..rng.range(1, 3) {
                        // often on the far edge of the neighbouring rank (the squares a bit-shift "neighbour" test would wrap to)
                        let ef = if rng.chance(2, 3) { 7 - f } else { f };
                        let er = rng.range(2, 5) as i32;
                        if let Some(s) = mk(ef, er) {
                            if p.sq[s as usize].is_none() {
                                p.sq[s as usize] = Some((Kind::P, me.other()));
                            }
                        }
                    }
                    if p.strict_validity_error().is_none() {
                        let pushes: Vec<Mv> = p.legal_moves().into_iter().filter(|m| p.is_double_push(*m) && (file_of(m.from) == 0 || file_of(m.from) == 7)).collect();
                        if !pushes.is_empty() {
                            let m = *rng.pick(&pushes);
                            p = p.make(m);
                            p.halfmove = 0;
                        }
                    }
                }
            }
        }
        let extra = rng.below(8) as usize;
        if which != 8 && which < 12 {
            fill(&mut p, rng, extra);
        }
        if !kings_apart(&p) || p.strict_validity_error().is_some() {
            continue;
        }
        let p = maybe_flip(p, rng);
        if p.strict_validity_error().is_some() {
            continue;
        }
        return (p, name);
    }
    (Pos::initial(), "initial")
}

/// Arbitrary builder state for C07: any of 12 men or nothing on each square at the given density.
pub fn arbitrary_builder(rng: &mut Rng) -> (String, Col, u8, u8) {
    let density = rng.below(101);
    let mut pl = String::with_capacity(64);
    let letters = b"PNBRQKpnbrqk";
    let style = rng.below(5);
    for s in 0..64u32 {
        let put = rng.below(100) < density;
        if !put {
            pl.push('.');
            continue;
        }
        let ch = match style {
            0 => letters[rng.usize(12)],
            // few kings: legal-looking crowded boards
            1 => *rng.pick(&[b'N', b'B', b'R', b'Q', b'n', b'b', b'r', b'q', b'P', b'p']),
            2 => *rng.pick(&[b'N', b'N', b'N', b'B', b'R', b'Q', b'n', b'p']),
            3 => *rng.pick(&[b'n', b'n', b'n', b'b', b'r', b'q', b'N', b'P']),
            _ => letters[rng.usize(12)],
        };
        let _ = s;
        pl.push(ch as char);
    }
    let mut b: Vec<u8> = pl.into_bytes();
    if style >= 1 && style <= 3 {
        // exactly one king per side on random squares (so the board has a chance of being accepted)
        let wk = rng.usize(64);
        let mut bk = rng.usize(64);
        while bk == wk {
            bk = rng.usize(64);
        }
        b[wk] = b'K';
        b[bk] = b'k';
        // pawns off the back ranks most of the time
        if rng.chance(3, 4) {
            for i in (0..8).chain(56..64) {
                if b[i] == b'P' || b[i] == b'p' {
                    b[i] = b'.';
                }
            }
        }
    }
    let stm = if rng.chance(1, 2) { Col::W } else { Col::B };
    let castle = if rng.chance(1, 2) { 0 } else { rng.below(16) as u8 };
    let ep = if rng.chance(2, 3) { 8 } else { rng.below(8) as u8 };
    (String::from_utf8(b).unwrap(), stm, castle, ep)
}


/// Structured rejection sampling for positions in which the side to move is in check and has one
/// (at most two) legal replies, the intended one being a pawn double-step or single-step interposition,
/// a knight interposition or a capture of the checker. Falls back to the best candidate seen.
pub fn unique_reply(rng: &mut Rng) -> Pos {
    let mut best: Option<(usize, Pos)> = None;
    for _ in 0..300 {
        let mut p = Pos::empty();
        let kf = *rng.pick(&[0i32, 7, 0, 7, 1, 6, 3, 4]);
        let kr = *rng.pick(&[0i32, 0, 1, 7, 2, 0]);
        let ks = mk(kf, kr).unwrap();
        p.sq[ks as usize] = Some((Kind::K, Col::W));
        let dirs = [(1, 0), (-1, 0), (0, 1), (0, -1), (1, 1), (1, -1), (-1, 1), (-1, -1)];
        let (df, dr) = *rng.pick(&dirs);
        let d = rng.range(3, 6) as i32;
        let ss = match mk(kf + df * d, kr + dr * d) {
            Some(s) => s,
            None => continue,
        };
        let slider = if df == 0 || dr == 0 { *rng.pick(&[Kind::R, Kind::Q]) } else { *rng.pick(&[Kind::B, Kind::Q]) };
        p.sq[ss as usize] = Some((slider, Col::B));
        // the interposer
        let between: Vec<Sq> = (1..d).filter_map(|i| mk(kf + df * i, kr + dr * i)).collect();
        let x = *rng.pick(&between);
        let (xf, xr) = (file_of(x), rank_of(x));
        match rng.below(4) {
            0 => {
                // double step: x on the fourth rank, pawn at home, the square in front of it empty
                if xr != 3 {
                    continue;
                }
                let home = mk(xf, 1).unwrap();
                let mid = mk(xf, 2).unwrap();
                if p.sq[home as usize].is_some() || p.sq[mid as usize].is_some() || between.contains(&mid) || between.contains(&home) {
                    continue;
                }
                p.sq[home as usize] = Some((Kind::P, Col::W));
            }
            1 => {
                if xr < 2 || xr > 6 {
                    continue;
                }
                let from = mk(xf, xr - 1).unwrap();
                if p.sq[from as usize].is_some() || between.contains(&from) {
                    continue;
                }
                p.sq[from as usize] = Some((Kind::P, Col::W));
            }
            2 => {
                let (a, b) = *rng.pick(&[(1, 2), (2, 1), (2, -1), (1, -2), (-1, -2), (-2, -1), (-2, 1), (-1, 2)]);
                match mk(xf + a, xr + b) {
                    Some(s) if p.sq[s as usize].is_none() && !between.contains(&s) => p.sq[s as usize] = Some((Kind::N, Col::W)),
                    _ => continue,
                }
            }
            _ => {
                // a man that can capture the checker: pawn beside-below it, or a knight
                let (a, b) = *rng.pick(&[(1, -1), (-1, -1), (1, 2), (2, 1), (-1, 2), (-2, 1), (2, -1), (-2, -1)]);
                let k = if b == -1 && (a == 1 || a == -1) { Kind::P } else { Kind::N };
                match mk(file_of(ss) + a, rank_of(ss) + b) {
                    Some(s) if p.sq[s as usize].is_none() && !between.contains(&s) && !(k == Kind::P && (rank_of(s) == 0 || rank_of(s) == 7)) => {
                        p.sq[s as usize] = Some((k, Col::W))
                    }
                    _ => continue,
                }
            }
        }
        // box the king in: own men on most neighbouring squares off the check line
        for (a, b) in dirs.iter() {
            if let Some(n) = mk(kf + a, kr + b) {
                if p.sq[n as usize].is_none() && !between.contains(&n) && rng.chance(3, 4) {
                    let k = if rank_of(n) == 0 || rank_of(n) == 7 { Kind::N } else { *rng.pick(&[Kind::P, Kind::P, Kind::N, Kind::B]) };
                    p.sq[n as usize] = Some((k, Col::W));
                }
            }
        }
        // a few black guards for the remaining flight squares
        for _ in 0..rng.range(0, 2) {
            let gk = *rng.pick(&[Kind::R, Kind::Q, Kind::B, Kind::N]);
            place_random(&mut p, rng, gk, Col::B);
        }
        place_random(&mut p, rng, Kind::K, Col::B);
        p.stm = Col::W;
        if p.men(Col::W) > 16 || p.count(Kind::P, Col::W) > 8 || !kings_apart(&p) || p.strict_validity_error().is_some() {
            continue;
        }
        if p.checkers().len() != 1 {
            continue;
        }
        let n = p.legal_moves().len();
        if n == 0 {
            continue;
        }
        if best.as_ref().map_or(true, |b| n < b.0) {
            best = Some((n, p.clone()));
        }
        if n == 1 {
            break;
        }
    }
    let q = match best {
        Some((_, q)) => q,
        None => return endgame(rng),
    };
    if rng.chance(1, 2) {
        let m = q.mirror_colour();
        if m.strict_validity_error().is_none() {
            return m;
        }
    }
    q
}
