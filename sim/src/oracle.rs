//! Position-level oracles: each compares what the real library says about one position (or one
//! position + move) with the reference model, or with the library's own mirror image / from-scratch
//! construction. They are evaluated by the executor after every simulated event on every node.

use crate::conv::*;
use crate::model::*;
use chess::{
    BitBoard, Board, BoardBuilder, BoardStatus, CastleRights, ChessMove, Color, File, MoveGen, Piece, Square,
    ALL_PIECES, ALL_SQUARES, EMPTY,
};
use std::collections::hash_map::DefaultHasher;
use std::convert::TryFrom;
use std::hash::{Hash, Hasher};
use std::str::FromStr;

#[derive(Clone, Debug, PartialEq, Eq)]
pub struct Violation {
    pub prop: &'static str,
    /// property/oracle/direction/discriminator — what known_findings.txt matches on
    pub sig: String,
    pub detail: String,
}

pub fn viol(prop: &'static str, sig: &str, detail: String) -> Violation {
    Violation { prop, sig: format!("{}/{}", prop, sig), detail }
}

pub type R = Result<(), Violation>;

pub fn bb_squares(b: &BitBoard) -> Vec<Sq> {
    let mut v: Vec<Sq> = (*b).map(sq_from_lib).collect();
    v.sort();
    v
}
pub fn names(v: &[Sq]) -> String {
    v.iter().map(|s| sq_name(*s)).collect::<Vec<_>>().join(",")
}

// ------------------------------------------------------------------------------------------ C01

/// Generated move list vs the model's legal set: missing / extra / duplicate, len(), legal_quick, enumerate_moves.
pub fn c01_movegen(b: &Board, p: &Pos) -> R {
    let model = p.legal_moves();
    let gen = MoveGen::new_legal(b);
    let fresh_len = gen.len();
    let mut got: Vec<Mv> = gen.map(mv_from_lib).collect();
    let raw = got.clone();
    got.sort();
    for w in got.windows(2) {
        if w[0] == w[1] {
            return Err(viol("C01", "movegen/duplicate", format!("{} produced twice in {}", w[0].uci(), p.fen())));
        }
    }
    for m in &model {
        if !got.contains(m) {
            return Err(viol(
                "C01",
                &format!("movegen/missing/{}", move_class(p, *m)),
                format!("legal move {} not generated in {}", m.uci(), p.fen()),
            ));
        }
    }
    for m in &got {
        if !model.contains(m) {
            return Err(viol(
                "C01",
                &format!("movegen/extra/{}", move_class_illegal(p, *m)),
                format!("generated {} is not legal in {}: {}", m.uci(), p.fen(), p.explain(*m)),
            ));
        }
    }
    if fresh_len != model.len() {
        return Err(viol(
            "C01",
            "movegen/len_fresh",
            format!("fresh len() = {} but {} legal moves in {}", fresh_len, model.len(), p.fen()),
        ));
    }
    for m in &raw {
        if !MoveGen::legal_quick(b, lib_mv(*m)) {
            return Err(viol(
                "C01",
                "legal_quick/false_on_generated",
                format!("legal_quick false on generated {} in {}", m.uci(), p.fen()),
            ));
        }
    }
    #[allow(deprecated)]
    {
        let mut buf = [ChessMove::default(); 256];
        let n = b.enumerate_moves(&mut buf);
        let mut e: Vec<Mv> = buf[..n].iter().map(|m| mv_from_lib(*m)).collect();
        e.sort();
        if e != model {
            return Err(viol(
                "C01",
                "enumerate_moves/differs",
                format!("enumerate_moves gives {} moves, model {} in {}", n, model.len(), p.fen()),
            ));
        }
    }
    Ok(())
}

pub fn move_class(p: &Pos, m: Mv) -> &'static str {
    if p.is_castle(m) {
        "castle"
    } else if p.is_ep(m) {
        "en_passant"
    } else if m.promo.is_some() {
        "promotion"
    } else if p.in_check() {
        "evasion"
    } else if p.pinned().contains(&m.from) {
        "pinned_man"
    } else {
        match p.sq[m.from as usize] {
            Some((Kind::K, _)) => "king",
            Some((Kind::P, _)) => "pawn",
            _ => "piece",
        }
    }
}
pub fn move_class_illegal(p: &Pos, m: Mv) -> &'static str {
    if p.sq[m.from as usize].map(|x| x.1) != Some(p.stm) {
        return "no_own_man";
    }
    if matches!(p.sq[m.from as usize], Some((Kind::K, _))) && (file_of(m.from) - file_of(m.to)).abs() == 2 {
        return "castle";
    }
    if p.is_ep(m) && p.ep == Some(m.to) {
        return "en_passant";
    }
    if !p.pseudo_moves().contains(&m) {
        return "not_a_movement";
    }
    if p.in_check() {
        "evasion"
    } else if p.pinned().contains(&m.from) {
        "pinned_man"
    } else if matches!(p.sq[m.from as usize], Some((Kind::K, _))) {
        "king_into_check"
    } else {
        "other"
    }
}

/// Single-move legality query against model membership.
pub fn c01_legal_query(b: &Board, p: &Pos, m: Mv) -> R {
    let lib = b.legal(lib_mv(m));
    let model = p.is_legal(m);
    if lib != model {
        return Err(viol(
            "C01",
            &format!(
                "legal_query/{}/{}",
                if lib { "true_on_illegal" } else { "false_on_legal" },
                if model { move_class(p, m) } else { move_class_illegal(p, m) }
            ),
            format!("Board::legal({}) = {} but model says {} in {} ({})", m.uci(), lib, model, p.fen(), p.explain(m)),
        ));
    }
    Ok(())
}

pub const ALL_PROMOS: [Option<Kind>; 5] = [None, Some(Kind::Q), Some(Kind::N), Some(Kind::R), Some(Kind::B)];

/// The whole 64 x 64 x 5 cube (and, while at it, the public perft helper to depth 2).
pub fn c01_sweep(b: &Board, p: &Pos) -> R {
    let model = p.legal_moves();
    if !model.is_empty() {
        let lib2 = MoveGen::movegen_perft_test(b, 2) as u64;
        let want2 = p.perft(2);
        if lib2 != want2 {
            return Err(viol(
                "C01",
                "movegen/perft_depth_2",
                format!("movegen_perft_test(depth 2) = {} but the model counts {} in {}", lib2, want2, p.fen()),
            ));
        }
    }
    let mut set = vec![false; 64 * 64 * 5];
    for m in &model {
        let pi = ALL_PROMOS.iter().position(|x| *x == m.promo).unwrap();
        set[(m.from as usize * 64 + m.to as usize) * 5 + pi] = true;
    }
    for from in 0..64u8 {
        for to in 0..64u8 {
            for (pi, pr) in ALL_PROMOS.iter().enumerate() {
                let m = Mv::new(from, to, *pr);
                let lib = b.legal(lib_mv(m));
                let model = set[(from as usize * 64 + to as usize) * 5 + pi];
                if lib != model {
                    return Err(viol(
                        "C01",
                        &format!(
                            "legal_query/{}/{}",
                            if lib { "true_on_illegal" } else { "false_on_legal" },
                            if model { move_class(p, m) } else { move_class_illegal(p, m) }
                        ),
                        format!("sweep: Board::legal({}) = {} but model says {} in {}", m.uci(), lib, model, p.fen()),
                    ));
                }
            }
        }
    }
    Ok(())
}

// ------------------------------------------------------------------------------------------ C02

/// Successor of legal move `m` from (b,p): both entry points, dirty output buffer, source untouched.
/// Returns the successor board.
pub fn c02_successor(b: &Board, p: &Pos, m: Mv, dirty: &Board) -> Result<Board, Violation> {
    let before = *b;
    let lm = lib_mv(m);
    let n1 = b.make_move_new(lm);
    let mut n2 = *dirty;
    b.make_move(lm, &mut n2);
    let class = move_class(p, m);
    if !boards_identical(&before, b) {
        return Err(viol("C02", "source_modified", format!("source board changed by {} in {}", m.uci(), p.fen())));
    }
    if n1 != n2 || !boards_identical(&n1, &n2) {
        return Err(viol(
            "C02",
            &format!("entry_points_differ/{}", class),
            format!(
                "make_move into a used buffer differs from make_move_new for {} in {}: {} vs {}",
                m.uci(),
                p.fen(),
                n2,
                n1
            ),
        ));
    }
    let np = p.make(m);
    let o = observe(&n1);
    if let Err(e) = same_core(&o, &np) {
        let what = if o.castle != np.castle {
            "castling_rights"
        } else if o.stm != np.stm {
            "side_to_move"
        } else {
            "placement"
        };
        return Err(viol(
            "C02",
            &format!("successor/{}/{}", what, class),
            format!("after {} in {}: {}", m.uci(), p.fen(), e),
        ));
    }
    if let Err(e) = ep_consistent(&o, &np) {
        return Err(viol(
            "C02",
            &format!("successor/en_passant/{}", if o.ep_pawn.is_some() { "recorded_wrongly" } else { "not_recorded" }),
            format!("after {} in {}: {}", m.uci(), p.fen(), e),
        ));
    }
    Ok(n1)
}

/// Bit-for-bit equality of two boards in every observable (not only ==).
pub fn boards_identical(a: &Board, b: &Board) -> bool {
    a == b
        && a.get_hash() == b.get_hash()
        && a.checkers() == b.checkers()
        && a.pinned() == b.pinned()
        && a.combined() == b.combined()
        && a.en_passant() == b.en_passant()
        && a.side_to_move() == b.side_to_move()
        && ALL_PIECES.iter().all(|p| a.pieces(*p) == b.pieces(*p))
        && a.color_combined(Color::White) == b.color_combined(Color::White)
        && a.color_combined(Color::Black) == b.color_combined(Color::Black)
        && a.castle_rights(Color::White) == b.castle_rights(Color::White)
        && a.castle_rights(Color::Black) == b.castle_rights(Color::Black)
}

// ------------------------------------------------------------------------------------------ C03

/// Checkers, pinned, occupancy consistency vs model, and equality with the from-FEN construction.
/// `path` names how the board was obtained (for the signature).
pub fn c03_caches(b: &Board, p: &Pos, path: &str) -> R {
    let want_checkers = p.checkers();
    let got_checkers = bb_squares(b.checkers());
    if want_checkers != got_checkers {
        return Err(viol(
            "C03",
            &format!("checkers/{}", path),
            format!("checkers() = [{}], model [{}] in {}", names(&got_checkers), names(&want_checkers), p.fen()),
        ));
    }
    let mine = *b.color_combined(b.side_to_move());
    let got_pinned = bb_squares(&(*b.pinned() & mine));
    let want_pinned = p.pinned();
    if got_pinned != want_pinned {
        return Err(viol(
            "C03",
            &format!("pinned/{}", path),
            format!("pinned()&own = [{}], model [{}] in {}", names(&got_pinned), names(&want_pinned), p.fen()),
        ));
    }
    // occupancy queries agree with each other and with the per-square queries
    let mut union = EMPTY;
    for pc in ALL_PIECES.iter() {
        union = union | *b.pieces(*pc);
    }
    if union != *b.combined()
        || (*b.color_combined(Color::White) | *b.color_combined(Color::Black)) != *b.combined()
        || (*b.color_combined(Color::White) & *b.color_combined(Color::Black)) != EMPTY
    {
        return Err(viol("C03", &format!("occupancy/sets_disagree/{}", path), format!("in {}", p.fen())));
    }
    for s in ALL_SQUARES.iter() {
        let i = sq_from_lib(*s);
        let bb = BitBoard::from_square(*s);
        let po = b.piece_on(*s);
        let co = b.color_on(*s);
        let want = p.sq[i as usize];
        let got = match (po, co) {
            (Some(pc), Some(c)) => Some((kind_from_lib(pc), col_from_lib(c))),
            (None, None) => None,
            _ => {
                return Err(viol(
                    "C03",
                    &format!("occupancy/piece_on_color_on_disagree/{}", path),
                    format!("square {} in {}", sq_name(i), p.fen()),
                ))
            }
        };
        if got != want {
            return Err(viol(
                "C03",
                &format!("occupancy/per_square_vs_model/{}", path),
                format!("square {}: library {:?}, model {:?} in {}", sq_name(i), got, want, p.fen()),
            ));
        }
        for pc in ALL_PIECES.iter() {
            let inset = (*b.pieces(*pc) & bb) != EMPTY;
            if inset != (po == Some(*pc)) {
                return Err(viol(
                    "C03",
                    &format!("occupancy/pieces_vs_piece_on/{}", path),
                    format!("square {} piece {:?} in {}", sq_name(i), pc, p.fen()),
                ));
            }
        }
        for c in [Color::White, Color::Black] {
            let inset = (*b.color_combined(c) & bb) != EMPTY;
            if inset != (co == Some(c)) {
                return Err(viol(
                    "C03",
                    &format!("occupancy/color_combined_vs_color_on/{}", path),
                    format!("square {} in {}", sq_name(i), p.fen()),
                ));
            }
        }
        if ((*b.combined() & bb) != EMPTY) != po.is_some() {
            return Err(viol(
                "C03",
                &format!("occupancy/combined_vs_piece_on/{}", path),
                format!("square {} in {}", sq_name(i), p.fen()),
            ));
        }
    }
    for c in [Col::W, Col::B] {
        if Some(sq_from_lib(b.king_square(lib_col(c)))) != p.king_sq(c) {
            return Err(viol("C03", &format!("occupancy/king_square/{}", path), format!("in {}", p.fen())));
        }
    }
    // equal, in every observable and under ==, to the same position freshly parsed from its own FEN
    let text = b.to_string();
    match Board::from_str(&text) {
        Err(e) => {
            return Err(viol(
                "C03",
                &format!("from_own_fen/rejected/{}", path),
                format!("own FEN {:?} rejected: {:?}", text, e),
            ))
        }
        Ok(fresh) => {
            if fresh != *b {
                let what = if fresh.pinned() != b.pinned() {
                    "pinned"
                } else if fresh.checkers() != b.checkers() {
                    "checkers"
                } else if fresh.get_hash() != b.get_hash() {
                    "hash"
                } else if fresh.en_passant() != b.en_passant() {
                    "en_passant"
                } else {
                    "other"
                };
                return Err(viol(
                    "C03",
                    &format!("from_own_fen/not_equal/{}/{}", what, path),
                    format!("board != Board::from_str of its own FEN {:?} (model {})", text, p.fen()),
                ));
            }
            if !boards_identical(&fresh, b) {
                return Err(viol(
                    "C03",
                    &format!("from_own_fen/observable_differs/{}", path),
                    format!("== holds but an observable differs for {:?}", text),
                ));
            }
        }
    }
    Ok(())
}

// ------------------------------------------------------------------------------------------ C04

pub fn lib_status(b: &Board) -> Status {
    match b.status() {
        BoardStatus::Ongoing => Status::Ongoing,
        BoardStatus::Stalemate => Status::Stalemate,
        BoardStatus::Checkmate => Status::Checkmate,
    }
}

pub fn c04_status(b: &Board, p: &Pos) -> R {
    let got = lib_status(b);
    let want = p.status();
    if got != want {
        return Err(viol(
            "C04",
            &format!("status/{:?}_reported_as_{:?}", want, got),
            format!("status() = {:?}, model {:?} in {}", got, want, p.fen()),
        ));
    }
    Ok(())
}

// ------------------------------------------------------------------------------------------ C05

/// Validity of one reached position.
pub fn c05_valid(b: &Board, p: &Pos) -> R {
    if !b.is_sane() {
        return Err(viol("C05", "is_sane/false_on_reached_position", format!("is_sane() false in {}", p.fen())));
    }
    let o = observe(b);
    for c in [Col::W, Col::B] {
        let kings = o.sq.iter().filter(|x| **x == Some((Kind::K, c))).count();
        if kings != 1 {
            return Err(viol("C05", "kings/not_one_per_side", format!("{:?} has {} kings in {}", c, kings, b)));
        }
    }
    for f in 0..8 {
        for r in [0usize, 7] {
            if matches!(o.sq[r * 8 + f], Some((Kind::P, _))) {
                return Err(viol("C05", "pawn_on_back_rank", format!("in {}", b)));
            }
        }
    }
    // the side that just moved is not in check — judged by the model on the library's own placement
    let mut q = pos_from_observed(&o);
    q.ep = None;
    if q.king_attacked(q.stm.other()) {
        return Err(viol("C05", "mover_left_in_check", format!("side not to move is attacked in {}", b)));
    }
    // ... and by the library with the turn passed back
    let mut bb = BoardBuilder::from(b);
    bb.side_to_move(!b.side_to_move());
    bb.en_passant(None);
    if let Ok(passed) = Board::try_from(&bb) {
        // try_from succeeds only if the (new) side not to move is not in check, which says nothing
        // here; the checkers of the passed-back position must be empty
        if *passed.checkers() != EMPTY {
            return Err(viol("C05", "mover_left_in_check/library_view", format!("in {}", b)));
        }
    }
    let _ = p;
    Ok(())
}

/// Monotonicity between a position and its successor along a history.
pub fn c05_monotone(before: &Board, after: &Board) -> R {
    let ob = observe(before);
    let oa = observe(after);
    for i in 0..4 {
        if oa.castle[i] && !ob.castle[i] {
            return Err(viol(
                "C05",
                "castle_rights/came_back",
                format!("right {} present in {} but absent in predecessor {}", i, after, before),
            ));
        }
    }
    for c in [Col::W, Col::B] {
        let men = |o: &Observed| o.sq.iter().filter(|x| matches!(x, Some((_, cc)) if *cc == c)).count();
        let pawns = |o: &Observed| o.sq.iter().filter(|x| **x == Some((Kind::P, c))).count();
        if men(&oa) > men(&ob) {
            return Err(viol("C05", "material/men_grew", format!("{} -> {}", before, after)));
        }
        if pawns(&oa) > pawns(&ob) {
            return Err(viol("C05", "material/pawns_grew", format!("{} -> {}", before, after)));
        }
    }
    Ok(())
}

// ------------------------------------------------------------------------------------------ C06

pub fn c06_fen(b: &Board, p: &Pos) -> R {
    let text = match crate::exec::guard(|| format!("{}", b)) {
        Ok(t) => t,
        Err(e) => return Err(viol("C06", "render/panic", format!("rendering the position {} panicked: {}", p.fen(), e))),
    };
    let fields: Vec<&str> = text.split(' ').collect();
    if fields.len() != 6 {
        return Err(viol("C06", "wellformed/field_count", format!("{:?}", text)));
    }
    // placement
    let ranks: Vec<&str> = fields[0].split('/').collect();
    let mut ok = ranks.len() == 8;
    for r in &ranks {
        let mut sum = 0;
        let mut prev_digit = false;
        for ch in r.chars() {
            if let Some(d) = ch.to_digit(10) {
                if prev_digit || d == 0 || d > 8 {
                    ok = false;
                }
                sum += d;
                prev_digit = true;
            } else {
                if !"pnbrqkPNBRQK".contains(ch) {
                    ok = false;
                }
                sum += 1;
                prev_digit = false;
            }
        }
        if sum != 8 {
            ok = false;
        }
    }
    if !ok {
        return Err(viol("C06", "wellformed/placement", format!("{:?}", text)));
    }
    if fields[1] != "w" && fields[1] != "b" {
        return Err(viol("C06", "wellformed/side", format!("{:?}", text)));
    }
    let cf = fields[2];
    let subseq_ok = cf == "-" || (!cf.is_empty() && {
        let order = "KQkq";
        let mut last = -1i32;
        cf.chars().all(|ch| match order.find(ch) {
            Some(i) if (i as i32) > last => {
                last = i as i32;
                true
            }
            _ => false,
        })
    });
    if !subseq_ok {
        return Err(viol("C06", "wellformed/castling", format!("{:?}", text)));
    }
    let ef = fields[3];
    let ep_ok = ef == "-" || (ef.len() == 2 && parse_sq(ef).is_some());
    if !ep_ok {
        return Err(viol("C06", "wellformed/en_passant", format!("{:?}", text)));
    }
    if fields[4].parse::<u32>().is_err() || fields[5].parse::<u32>().is_err() {
        return Err(viol("C06", "wellformed/counters", format!("{:?}", text)));
    }
    // fields 1-3 describe the position
    if fields[0] != p.placement_field() {
        return Err(viol(
            "C06",
            "placement_field/wrong",
            format!("{:?} but model {:?}", fields[0], p.placement_field()),
        ));
    }
    if (fields[1] == "w") != (p.stm == Col::W) {
        return Err(viol("C06", "side_field/wrong", format!("{:?} for {}", text, p.fen())));
    }
    if cf != p.castle_field() {
        return Err(viol("C06", "castling_field/wrong", format!("{:?} but model {:?}", cf, p.castle_field())));
    }
    // en-passant field
    if ef != "-" {
        let s = parse_sq(ef).unwrap();
        match p.ep {
            None => {
                return Err(viol(
                    "C06",
                    "ep_field/present_without_double_push",
                    format!("{:?} for {}", text, p.fen()),
                ))
            }
            Some(t) => {
                if s != t {
                    if Some(s) == p.ep_pawn_sq() {
                        return Err(viol(
                            "C06",
                            "ep_field/names_pawn_square_not_target",
                            format!("library writes {:?}; the square passed over is {}", text, sq_name(t)),
                        ));
                    }
                    return Err(viol("C06", "ep_field/wrong_square", format!("{:?} for {}", text, p.fen())));
                }
            }
        }
    } else if p.ep_capture_legal() {
        return Err(viol("C06", "ep_field/missing_with_legal_capture", format!("{:?} for {}", text, p.fen())));
    }
    // round trips
    match Board::from_str(&text) {
        Ok(back) => {
            if back != *b {
                return Err(viol("C06", "roundtrip/own_text_differs", format!("{:?}", text)));
            }
        }
        Err(e) => return Err(viol("C06", "roundtrip/own_text_rejected", format!("{:?}: {:?}", text, e))),
    }
    let std = p.fen();
    match Board::from_str(&std) {
        Ok(back) => {
            if back != *b {
                return Err(viol(
                    "C06",
                    "roundtrip/standard_text_differs",
                    format!("standard FEN {:?} parses to {} but the position is {}", std, back, b),
                ));
            }
        }
        Err(e) => return Err(viol("C06", "roundtrip/standard_text_rejected", format!("{:?}: {:?}", std, e))),
    }
    // the unvalidated builder describes the same position through its getters and its index
    let bld = BoardBuilder::from(b);
    let ob = observe(b);
    if col_from_lib(bld.get_side_to_move()) != ob.stm
        || bld.get_castle_rights(Color::White) != b.castle_rights(Color::White)
        || bld.get_castle_rights(Color::Black) != b.castle_rights(Color::Black)
        || bld.get_en_passant() != b.en_passant()
    {
        return Err(viol("C06", "builder/getters_differ_from_board", format!("for {}", text)));
    }
    for s in ALL_SQUARES.iter() {
        let want = ob.sq[sq_from_lib(*s) as usize].map(|(k, c)| (lib_kind(k), lib_col(c)));
        if bld[*s] != want {
            return Err(viol("C06", "builder/index_differs_from_board", format!("square {} of {}", s, text)));
        }
    }
    let viab = BoardBuilder::from(b).to_string();
    if viab != text {
        return Err(viol("C06", "builder/display_differs", format!("{:?} vs {:?}", viab, text)));
    }
    match BoardBuilder::from_str(&text) {
        Ok(bb) => {
            if bb.to_string() != text {
                return Err(viol(
                    "C06",
                    "builder/reparse_differs",
                    format!("{:?} re-renders as {:?}", text, bb.to_string()),
                ));
            }
        }
        Err(e) => return Err(viol("C06", "builder/own_text_rejected", format!("{:?}: {:?}", text, e))),
    }
    Ok(())
}

// ------------------------------------------------------------------------------------------ C08

pub fn std_hash(b: &Board) -> u64 {
    let mut h = DefaultHasher::new();
    b.hash(&mut h);
    h.finish()
}

/// Hash of an incrementally reached board vs the from-scratch constructions of the same position.
pub fn c08_paths(b: &Board, p: &Pos, path: &str) -> R {
    let own = Board::from_str(&b.to_string());
    let std = Board::from_str(&p.fen());
    let viab = board_via_builder(p);
    // the same position written with "-" where no enemy pawn stands beside the pushed pawn (how it reads when it was
    // reached by another last move): identical text to the standard FEN in every other case
    let bare = Board::from_str(&p.fen_ep_if_beside());
    for (name, other) in [("own_fen", own), ("standard_fen", std), ("builder", viab), ("fen_without_unusable_ep", bare)] {
        if let Ok(o) = other {
            if o == *b {
                if o.get_hash() != b.get_hash() {
                    return Err(viol(
                        "C08",
                        &format!("hash/differs_from_{}/{}", name, path),
                        format!("{:#x} vs {:#x} for {}", b.get_hash(), o.get_hash(), p.fen()),
                    ));
                }
                if std_hash(&o) != std_hash(b) {
                    return Err(viol(
                        "C08",
                        &format!("std_hash/inconsistent_with_eq/{}", path),
                        format!("for {}", p.fen()),
                    ));
                }
            } else if (observe(&o) == observe(b) || pos_from_observed(&observe(&o)).key_beside() == p.key_beside())
                && o.get_hash() != b.get_hash()
            {
                return Err(viol(
                    "C08",
                    &format!("hash/differs_from_{}/{}", name, path),
                    format!("same observables, {:#x} vs {:#x} for {}", b.get_hash(), o.get_hash(), p.fen()),
                ));
            }
        }
    }
    Ok(())
}

// ------------------------------------------------------------------------------------------ C17

pub fn flip_sq_colour(s: Square) -> Square {
    lib_sq(sq_from_lib(s) ^ 56)
}
pub fn flip_sq_file(s: Square) -> Square {
    lib_sq(sq_from_lib(s) ^ 7)
}
fn flip_bb(b: &BitBoard, f: fn(Square) -> Square) -> Vec<Square> {
    let mut v: Vec<Square> = (*b).map(f).collect();
    v.sort_by_key(|s| s.to_index());
    v
}
fn bb_vec(b: &BitBoard) -> Vec<Square> {
    let mut v: Vec<Square> = (*b).collect();
    v.sort_by_key(|s| s.to_index());
    v
}

/// Library-only mirror image of a board through BoardBuilder. `colour` = swap colours + flip ranks;
/// otherwise flip files (caller guarantees no castling rights).
pub fn mirror_board(b: &Board, colour: bool) -> Result<Board, chess::Error> {
    let mut bb = BoardBuilder::new();
    for s in ALL_SQUARES.iter() {
        if let (Some(pc), Some(c)) = (b.piece_on(*s), b.color_on(*s)) {
            if colour {
                bb.piece(flip_sq_colour(*s), pc, !c);
            } else {
                bb.piece(flip_sq_file(*s), pc, c);
            }
        }
    }
    if colour {
        // the builder's setters are order-independent by contract: both orders are used, chosen by the position
        let ep_first = b.get_hash() & 1 == 1;
        if ep_first {
            bb.en_passant(b.en_passant().map(|s| s.get_file()));
        }
        bb.side_to_move(!b.side_to_move());
        bb.castle_rights(Color::White, b.castle_rights(Color::Black));
        bb.castle_rights(Color::Black, b.castle_rights(Color::White));
        if !ep_first {
            bb.en_passant(b.en_passant().map(|s| s.get_file()));
        }
    } else {
        bb.side_to_move(b.side_to_move());
        bb.castle_rights(Color::White, CastleRights::NoRights);
        bb.castle_rights(Color::Black, CastleRights::NoRights);
        bb.en_passant(b.en_passant().map(|s| File::from_index(7 - s.get_file().to_index())));
    }
    Board::try_from(&bb)
}

/// The four symmetry relations, library against its own mirror image (no reference model).
pub fn c17_mirror(b: &Board, colour: bool) -> R {
    let tag = if colour { "colour" } else { "file" };
    let f: fn(Square) -> Square = if colour { flip_sq_colour } else { flip_sq_file };
    let m = match mirror_board(b, colour) {
        Ok(m) => m,
        Err(e) => {
            return Err(viol("C17", &format!("{}/mirror_rejected", tag), format!("mirror of {} rejected: {:?}", b, e)))
        }
    };
    let flip_mv = |x: ChessMove| ChessMove::new(f(x.get_source()), f(x.get_dest()), x.get_promotion());
    let key = |x: &ChessMove| (x.get_source().to_index(), x.get_dest().to_index(), x.get_promotion().map(|p| p.to_index()));
    let mut a: Vec<ChessMove> = MoveGen::new_legal(b).map(flip_mv).collect();
    let mut c: Vec<ChessMove> = MoveGen::new_legal(&m).collect();
    a.sort_by_key(key);
    c.sort_by_key(key);
    if a != c {
        let diff: Vec<String> = a
            .iter()
            .filter(|x| !c.contains(x))
            .map(|x| format!("+{}", x))
            .chain(c.iter().filter(|x| !a.contains(x)).map(|x| format!("-{}", x)))
            .collect();
        return Err(viol(
            "C17",
            &format!("{}/legal_moves", tag),
            format!("{} vs mirror {}: flipped moves differ: {}", b, m, diff.join(" ")),
        ));
    }
    if b.status() != m.status() {
        return Err(viol("C17", &format!("{}/status", tag), format!("{} vs mirror {}", b, m)));
    }
    if flip_bb(b.checkers(), f) != bb_vec(m.checkers()) {
        return Err(viol("C17", &format!("{}/checkers", tag), format!("{} vs mirror {}", b, m)));
    }
    let own = *b.pinned() & *b.color_combined(b.side_to_move());
    let mown = *m.pinned() & *m.color_combined(m.side_to_move());
    if flip_bb(&own, f) != bb_vec(&mown) {
        return Err(viol("C17", &format!("{}/pinned", tag), format!("{} vs mirror {}", b, m)));
    }
    for mv in MoveGen::new_legal(b) {
        let s1 = b.make_move_new(mv);
        let s2 = m.make_move_new(flip_mv(mv));
        // after a castling move rights are gone for that side, so the file flip stays applicable
        match mirror_board(&s1, colour) {
            Ok(ms1) => {
                if ms1 != s2 {
                    return Err(viol(
                        "C17",
                        &format!("{}/successor", tag),
                        format!("{} after {}: mirror of successor {} != successor of mirror {}", b, mv, ms1, s2),
                    ));
                }
            }
            Err(e) => {
                return Err(viol(
                    "C17",
                    &format!("{}/successor_mirror_rejected", tag),
                    format!("{} after {}: {:?}", b, mv, e),
                ))
            }
        }
    }
    Ok(())
}

// ------------------------------------------------------------------------------------------ C18

pub fn c18_null(b: &Board, p: &Pos) -> R {
    let in_check = p.in_check();
    match b.null_move() {
        None => {
            if !in_check {
                return Err(viol("C18", "refused_when_not_in_check", format!("in {}", p.fen())));
            }
        }
        Some(n) => {
            if in_check {
                return Err(viol("C18", "allowed_in_check", format!("in {}", p.fen())));
            }
            let mut q = p.clone();
            q.stm = p.stm.other();
            q.ep = None;
            let o = observe(&n);
            if let Err(e) = same_core(&o, &q) {
                return Err(viol("C18", "result/placement_side_or_rights", format!("null move in {}: {}", p.fen(), e)));
            }
            if o.ep_pawn.is_some() {
                return Err(viol("C18", "result/keeps_en_passant", format!("null move in {}", p.fen())));
            }
            match Board::from_str(&q.fen()) {
                Ok(fresh) => {
                    if fresh.checkers() != n.checkers() {
                        return Err(viol("C18", "result/checkers_differ_from_scratch", format!("null move in {}", p.fen())));
                    }
                    if fresh.pinned() != n.pinned() {
                        return Err(viol("C18", "result/pinned_differs_from_scratch", format!("null move in {}", p.fen())));
                    }
                    if fresh.get_hash() != n.get_hash() {
                        return Err(viol("C18", "result/hash_differs_from_scratch", format!("null move in {}", p.fen())));
                    }
                    if fresh != n {
                        return Err(viol("C18", "result/not_equal_to_scratch", format!("null move in {}", p.fen())));
                    }
                }
                Err(_) => {
                    // the passed position is rejected by validation exactly when the side that passed
                    // would be "in check while not to move" — impossible here because it was not in check
                    return Err(viol("C18", "result/scratch_rejected", format!("{} rejected", q.fen())));
                }
            }
        }
    }
    Ok(())
}


/// The same placement, side and rights without the en-passant state: a different position that many
/// keys and caches are tempted to confuse with the original.
pub fn ep_twin(p: &Pos) -> Option<(Pos, Board)> {
    if !p.ep_pawn_beside() {
        return None;
    }
    let mut q = p.clone();
    q.ep = None;
    match Board::from_str(&q.fen()) {
        Ok(b) => Some((q, b)),
        Err(_) => None,
    }
}

/// C01 / C04 on a position and its en-passant twin, queried alternately: answers must not depend on
/// what was asked before.
pub fn twin_probe(b: &Board, p: &Pos, c01: bool, c04: bool) -> R {
    let (q, tb) = match ep_twin(p) {
        Some(x) => x,
        None => return Ok(()),
    };
    let eps: Vec<Mv> = p.pseudo_moves().into_iter().filter(|m| p.is_ep(*m)).collect();
    for round in 0..2 {
        let order: [(&Board, &Pos); 2] = if round == 0 { [(b, p), (&tb, &q)] } else { [(&tb, &q), (b, p)] };
        for (bb, pp) in order.iter() {
            if c01 {
                for m in eps.iter() {
                    c01_legal_query(bb, pp, *m)?;
                }
                c01_movegen(bb, pp)?;
            }
            if c04 {
                c04_status(bb, pp)?;
            }
        }
    }
    Ok(())
}
