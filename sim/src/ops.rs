//! The script language at the library boundary. A run is a list of `Step`s; a replay file is that
//! list written out. Every op carries explicit arguments (no PRNG is needed to replay) and every
//! script is executable: an op whose preconditions are not met is a no-op, so ddmin may drop any
//! subset of steps.

use crate::model::*;

#[derive(Clone, Debug, PartialEq, Eq)]
pub enum Enc {
    /// handed to Game::make_move as a value through the API, no text in between (any promotion field, also Pawn / King)
    Api,
    Uci,
    San(San),
    /// raw text handed to the decoder named by `san` (B-RANDOM garbage, noise)
    Raw { san: bool, text: String },
}

#[derive(Clone, Debug, PartialEq, Eq)]
pub enum CAct {
    Move { mv: Option<Mv>, enc: Enc },
    Offer(Col),
    Accept,
    Resign(Col),
    Claim,
    SnapReq,
}

#[derive(Clone, Debug, PartialEq, Eq)]
pub enum Corr {
    Xor { at: usize, mask: u8 },
    Trunc { len: usize },
    Insert { at: usize, text: String },
    Set { text: String },
}

#[derive(Copy, Clone, Debug, PartialEq, Eq)]
pub enum CrashPoint {
    /// crash before the record is appended: nothing durable, nothing broadcast
    BeforeAppend,
    /// appended, not yet synced: the record is lost
    AppendedLost,
    /// appended, not yet synced: a prefix of `keep` bytes of the record reaches the disk
    AppendedTorn { keep: usize },
    /// synced, crash before the broadcast
    SyncedNoBroadcast,
}

#[derive(Clone, Debug, PartialEq, Eq)]
pub enum EOp {
    NewGen,
    RemoveMove(Mv),
    RemoveMask(u64),
    SetMask(u64),
    Next,
    Len,
    Null,
    Descend { mv: Mv, dirty: u32 },
    Ascend,
    Reset,
    TableNew { size: u64 },
    TableGet { key: u64 },
    /// val: 0 = a stamp unique to this write, 1 = the value the slot currently holds, 2 = the table's default value
    TableAdd { key: u64, val: u8 },
    TableReplaceIf { key: u64, pred: u8, val: u8 },
    /// library-only walk (C05): follow the k-th move the LIBRARY generates, `picks.len()` plies deep
    LibWalk { picks: Vec<u8> },
    /// complete tree of library-generated moves to depth 2 under the task's current board (C05)
    LibTree,
    /// the deprecated UI setters: Board::set_piece (kind Some) / Board::clear_square (kind None) on the task's board
    Edit { sq: u8, kind: Option<(Kind, Col)> },
    /// deprecated castle-right setters: bit 0 add / remove, bits 1-2 king side / queen side / both, bit 3 colour, bit 4 my-their API
    Rights { code: u8 },
    /// key = hash of the task's current board (real get_hash value), optionally xor-ed with high bits
    TableAddHere { alias: u64 },
    TableGetHere { alias: u64 },
}

#[derive(Clone, Debug, PartialEq, Eq)]
pub enum Probe {
    CanClaim,
    Sweep,
    SanAll,
    /// arbitrary triple to the legality query at the server position
    Legal(Mv),
    Position,
}

#[derive(Clone, Debug, PartialEq, Eq)]
pub enum Op {
    StartFen { text: String },
    /// 64-char placement ('.' = empty, FEN letters), side, castling mask (bit0 K,1 Q,2 k,3 q), ep file or 8
    /// order: bit0 = en-passant file set before the side to move, bit1 = rights before pieces,
    /// bit2 = side to move first set to the other colour and corrected at the end, bit3 = BoardBuilder::setup(...) instead of setters
    StartBuilder { placement: String, stm: Col, castle: u8, ep_file: u8, order: u8 },
    /// model-side start: the reference model's standard FEN for a generated position (reaches the
    /// server through FEN text or through BoardBuilder)
    ClientAct { c: usize, act: CAct },
    ArbiterAct { act: CAct },
    Corrupt { id: u32, how: Corr },
    Deliver { id: u32, crash: Option<CrashPoint> },
    CrashServer,
    RestartServer,
    CrashClient { c: usize },
    RestartClient { c: usize },
    DiskRot { rec: usize, at: usize, mask: u8 },
    Engine { c: usize, task: usize, e: EOp },
    Probe(Probe),
    /// text validation surface (C07/C09): a FEN-like text to Board::from_str / BoardBuilder::from_str / Game::from_str
    Validate { text: String },
    /// arbitrary builder state to Board::try_from (C07)
    ValidateBuilder { placement: String, stm: Col, castle: u8, ep_file: u8, order: u8 },
    /// sibling pair (C08/C09): two FENs whose hashes are compared (equal positions => equal, different => different)
    Pair { a: String, b: String },
    /// decode arbitrary text as SAN against a position given by FEN (C12 totality), or as UCI / square (C13)
    DecodeSan { fen: String, text: String },
    DecodeUci { text: String },
    DecodeSquare { text: String },
    /// marks the start of the fault-free tail
    Quiesce,
}

#[derive(Clone, Debug, PartialEq, Eq)]
pub struct Step {
    /// original step number: message ids are derived from it, so dropping other steps never renames a message
    pub n: u32,
    /// simulated time in milliseconds (metadata only; replay ignores it)
    pub t: u64,
    /// fault tags that fired at this step (metadata only)
    pub faults: Vec<String>,
    pub op: Op,
}

// ---------------------------------------------------------------------------------------------
// text form: `n=<n> t=<t> f=<tags> <opname> k=v ...`, values percent-encoded

pub fn enc(s: &str) -> String {
    let mut o = String::new();
    for b in s.bytes() {
        if b.is_ascii_alphanumeric() || b"-_./+#=,:".contains(&b) {
            o.push(b as char);
        } else {
            o.push_str(&format!("%{:02X}", b));
        }
    }
    if o.is_empty() {
        o.push_str("%");
    }
    o
}
pub fn dec(s: &str) -> Option<String> {
    if s == "%" {
        return Some(String::new());
    }
    let b = s.as_bytes();
    let mut out: Vec<u8> = vec![];
    let mut i = 0;
    while i < b.len() {
        if b[i] == b'%' {
            if i + 3 > b.len() {
                return None;
            }
            let h = std::str::from_utf8(&b[i + 1..i + 3]).ok()?;
            out.push(u8::from_str_radix(h, 16).ok()?);
            i += 3;
        } else {
            out.push(b[i]);
            i += 1;
        }
    }
    String::from_utf8(out).ok()
}

fn col_s(c: Col) -> &'static str {
    if c == Col::W {
        "w"
    } else {
        "b"
    }
}
fn col_p(s: &str) -> Option<Col> {
    match s {
        "w" => Some(Col::W),
        "b" => Some(Col::B),
        _ => None,
    }
}
fn kind_p(s: &str) -> Option<Kind> {
    Some(match s {
        "P" => Kind::P,
        "N" => Kind::N,
        "B" => Kind::B,
        "R" => Kind::R,
        "Q" => Kind::Q,
        "K" => Kind::K,
        _ => return None,
    })
}

pub fn san_s(s: &San) -> String {
    // castle,piece,file,rank,takes,dest,promo,mark,ep
    format!(
        "{}:{}:{}:{}:{}:{}:{}:{}:{}",
        match s.castle {
            None => "-",
            Some(true) => "k",
            Some(false) => "q",
        },
        kind_letter_upper(s.piece),
        s.file_hint.map(|f| f.to_string()).unwrap_or("-".into()),
        s.rank_hint.map(|f| f.to_string()).unwrap_or("-".into()),
        s.takes as u8,
        sq_name(s.dest),
        s.promo.map(|k| kind_letter_upper(k).to_string()).unwrap_or("-".into()),
        match s.mark {
            Mark::None => "-",
            Mark::Check => "+",
            Mark::Mate => "#",
        },
        s.ep_suffix as u8
    )
}
pub fn san_p(t: &str) -> Option<San> {
    let f: Vec<&str> = t.split(':').collect();
    if f.len() != 9 {
        return None;
    }
    Some(San {
        castle: match f[0] {
            "-" => None,
            "k" => Some(true),
            "q" => Some(false),
            _ => return None,
        },
        piece: kind_p(f[1])?,
        file_hint: if f[2] == "-" { None } else { Some(f[2].parse().ok()?) },
        rank_hint: if f[3] == "-" { None } else { Some(f[3].parse().ok()?) },
        takes: f[4] == "1",
        dest: parse_sq(f[5])?,
        promo: if f[6] == "-" { None } else { Some(kind_p(f[6])?) },
        mark: match f[7] {
            "-" => Mark::None,
            "+" => Mark::Check,
            "#" => Mark::Mate,
            _ => return None,
        },
        ep_suffix: f[8] == "1",
    })
}

/// move text that also covers promotion fields outside q/r/b/n (p, k)
pub fn mv_any(m: Mv) -> String {
    let mut s = sq_name(m.from);
    s.push_str(&sq_name(m.to));
    if let Some(k) = m.promo {
        s.push(kind_letter_lower(k));
    }
    s
}
pub fn mv_any_p(t: &str) -> Option<Mv> {
    if let Some(m) = Mv::parse_uci(t) {
        return Some(m);
    }
    if t.len() == 5 && t.is_ascii() {
        let k = match t.as_bytes()[4] {
            b'p' => Kind::P,
            b'k' => Kind::K,
            _ => return None,
        };
        return Some(Mv::new(parse_sq(&t[0..2])?, parse_sq(&t[2..4])?, Some(k)));
    }
    None
}

fn cact_s(a: &CAct) -> String {
    match a {
        CAct::Move { mv, enc: e } => {
            let m = mv.map(|m| m.uci()).unwrap_or("-".into());
            match e {
                Enc::Api => format!("act=move mv={} enc=api", mv.map(|x| mv_any(x)).unwrap_or("-".into())),
                Enc::Uci => format!("act=move mv={} enc=uci", m),
                Enc::San(s) => format!("act=move mv={} enc=san san={}", m, san_s(s)),
                Enc::Raw { san, text } => {
                    format!("act=move mv={} enc=raw dec={} text={}", m, if *san { "san" } else { "uci" }, enc(text))
                }
            }
        }
        CAct::Offer(c) => format!("act=offer by={}", col_s(*c)),
        CAct::Accept => "act=accept".into(),
        CAct::Resign(c) => format!("act=resign by={}", col_s(*c)),
        CAct::Claim => "act=claim".into(),
        CAct::SnapReq => "act=snapreq".into(),
    }
}

fn eop_s(e: &EOp) -> String {
    match e {
        EOp::NewGen => "e=newgen".into(),
        EOp::RemoveMove(m) => format!("e=remove_move mv={}", m.uci()),
        EOp::RemoveMask(b) => format!("e=remove_mask bb={:016x}", b),
        EOp::SetMask(b) => format!("e=set_mask bb={:016x}", b),
        EOp::Next => "e=next".into(),
        EOp::Len => "e=len".into(),
        EOp::Null => "e=null".into(),
        EOp::Descend { mv, dirty } => format!("e=descend mv={} dirty={}", mv.uci(), dirty),
        EOp::Ascend => "e=ascend".into(),
        EOp::Reset => "e=reset".into(),
        EOp::TableNew { size } => format!("e=table_new size={}", size),
        EOp::TableGet { key } => format!("e=table_get key={:016x}", key),
        EOp::TableAdd { key, val } => format!("e=table_add key={:016x} val={}", key, val),
        EOp::TableReplaceIf { key, pred, val } => format!("e=table_replace_if key={:016x} pred={} val={}", key, pred, val),
        EOp::LibWalk { picks } => format!("e=lib_walk picks={}", picks.iter().map(|b| format!("{:02x}", b)).collect::<String>()),
        EOp::LibTree => "e=lib_tree".into(),
        EOp::Edit { sq, kind } => match kind {
            Some((k, c)) => format!("e=edit sq={} put={}{}", sq_name(*sq), kind_letter_upper(*k), col_s(*c)),
            None => format!("e=edit sq={} put=-", sq_name(*sq)),
        },
        EOp::Rights { code } => format!("e=rights code={}", code),
        EOp::TableAddHere { alias } => format!("e=table_add_here alias={:016x}", alias),
        EOp::TableGetHere { alias } => format!("e=table_get_here alias={:016x}", alias),
    }
}

impl Step {
    pub fn to_line(&self) -> String {
        let head = format!(
            "n={} t={} f={}",
            self.n,
            self.t,
            if self.faults.is_empty() { "-".to_string() } else { self.faults.join(",") }
        );
        let body = match &self.op {
            Op::StartFen { text } => format!("start_fen text={}", enc(text)),
            Op::StartBuilder { placement, stm, castle, ep_file, order } => {
                format!("start_builder pl={} stm={} castle={} ep={} order={}", enc(placement), col_s(*stm), castle, ep_file, order)
            }
            Op::ClientAct { c, act } => format!("client c={} {}", c, cact_s(act)),
            Op::ArbiterAct { act } => format!("arbiter {}", cact_s(act)),
            Op::Corrupt { id, how } => match how {
                Corr::Xor { at, mask } => format!("corrupt id={} how=xor at={} mask={}", id, at, mask),
                Corr::Trunc { len } => format!("corrupt id={} how=trunc len={}", id, len),
                Corr::Insert { at, text } => format!("corrupt id={} how=insert at={} text={}", id, at, enc(text)),
                Corr::Set { text } => format!("corrupt id={} how=set text={}", id, enc(text)),
            },
            Op::Deliver { id, crash } => match crash {
                None => format!("deliver id={}", id),
                Some(CrashPoint::BeforeAppend) => format!("deliver id={} crash=before_append", id),
                Some(CrashPoint::AppendedLost) => format!("deliver id={} crash=appended_lost", id),
                Some(CrashPoint::AppendedTorn { keep }) => format!("deliver id={} crash=appended_torn keep={}", id, keep),
                Some(CrashPoint::SyncedNoBroadcast) => format!("deliver id={} crash=synced_no_broadcast", id),
            },
            Op::CrashServer => "crash_server".into(),
            Op::RestartServer => "restart_server".into(),
            Op::CrashClient { c } => format!("crash_client c={}", c),
            Op::RestartClient { c } => format!("restart_client c={}", c),
            Op::DiskRot { rec, at, mask } => format!("disk_rot rec={} at={} mask={}", rec, at, mask),
            Op::Engine { c, task, e } => format!("engine c={} task={} {}", c, task, eop_s(e)),
            Op::Probe(p) => match p {
                Probe::CanClaim => "probe what=can_claim".into(),
                Probe::Sweep => "probe what=sweep".into(),
                Probe::SanAll => "probe what=san_all".into(),
                Probe::Legal(m) => format!("probe what=legal mv={}", m.uci()),
                Probe::Position => "probe what=position".into(),
            },
            Op::Validate { text } => format!("validate text={}", enc(text)),
            Op::ValidateBuilder { placement, stm, castle, ep_file, order } => {
                format!("validate_builder pl={} stm={} castle={} ep={} order={}", enc(placement), col_s(*stm), castle, ep_file, order)
            }
            Op::Pair { a, b } => format!("pair a={} b={}", enc(a), enc(b)),
            Op::DecodeSan { fen, text } => format!("decode_san fen={} text={}", enc(fen), enc(text)),
            Op::DecodeUci { text } => format!("decode_uci text={}", enc(text)),
            Op::DecodeSquare { text } => format!("decode_square text={}", enc(text)),
            Op::Quiesce => "quiesce".into(),
        };
        format!("{} {}", head, body)
    }

    pub fn parse(line: &str) -> Option<Step> {
        let toks: Vec<&str> = line.split(' ').filter(|t| !t.is_empty()).collect();
        let mut kv = std::collections::BTreeMap::new();
        let mut name = "";
        for t in &toks {
            match t.find('=') {
                Some(i) => {
                    kv.insert(&t[..i], &t[i + 1..]);
                }
                None => name = t,
            }
        }
        let g = |k: &str| -> Option<&str> { kv.get(k).cloned() };
        let gu = |k: &str| -> Option<u64> { g(k)?.parse().ok() };
        let gx = |k: &str| -> Option<u64> { u64::from_str_radix(g(k)?, 16).ok() };
        let gs = |k: &str| -> Option<String> { dec(g(k)?) };
        let gm = |k: &str| -> Option<Mv> { Mv::parse_uci(g(k)?) };
        let n = gu("n")? as u32;
        let t = gu("t").unwrap_or(0);
        let faults: Vec<String> = match g("f") {
            None | Some("-") => vec![],
            Some(s) => s.split(',').map(|x| x.to_string()).collect(),
        };
        let cact = || -> Option<CAct> {
            Some(match g("act")? {
                "move" => {
                    let mv = match g("mv")? {
                        "-" => None,
                        s => Some(mv_any_p(s)?),
                    };
                    let e = match g("enc")? {
                        "api" => Enc::Api,
                        "uci" => Enc::Uci,
                        "san" => Enc::San(san_p(g("san")?)?),
                        "raw" => Enc::Raw { san: g("dec")? == "san", text: gs("text")? },
                        _ => return None,
                    };
                    CAct::Move { mv, enc: e }
                }
                "offer" => CAct::Offer(col_p(g("by")?)?),
                "accept" => CAct::Accept,
                "resign" => CAct::Resign(col_p(g("by")?)?),
                "claim" => CAct::Claim,
                "snapreq" => CAct::SnapReq,
                _ => return None,
            })
        };
        let op = match name {
            "start_fen" => Op::StartFen { text: gs("text")? },
            "start_builder" => Op::StartBuilder {
                placement: gs("pl")?,
                stm: col_p(g("stm")?)?,
                castle: gu("castle")? as u8,
                ep_file: gu("ep")? as u8,
                order: gu("order").unwrap_or(0) as u8,
            },
            "client" => Op::ClientAct { c: gu("c")? as usize, act: cact()? },
            "arbiter" => Op::ArbiterAct { act: cact()? },
            "corrupt" => Op::Corrupt {
                id: gu("id")? as u32,
                how: match g("how")? {
                    "xor" => Corr::Xor { at: gu("at")? as usize, mask: gu("mask")? as u8 },
                    "trunc" => Corr::Trunc { len: gu("len")? as usize },
                    "insert" => Corr::Insert { at: gu("at")? as usize, text: gs("text")? },
                    "set" => Corr::Set { text: gs("text")? },
                    _ => return None,
                },
            },
            "deliver" => Op::Deliver {
                id: gu("id")? as u32,
                crash: match g("crash") {
                    None => None,
                    Some("before_append") => Some(CrashPoint::BeforeAppend),
                    Some("appended_lost") => Some(CrashPoint::AppendedLost),
                    Some("appended_torn") => Some(CrashPoint::AppendedTorn { keep: gu("keep")? as usize }),
                    Some("synced_no_broadcast") => Some(CrashPoint::SyncedNoBroadcast),
                    _ => return None,
                },
            },
            "crash_server" => Op::CrashServer,
            "restart_server" => Op::RestartServer,
            "crash_client" => Op::CrashClient { c: gu("c")? as usize },
            "restart_client" => Op::RestartClient { c: gu("c")? as usize },
            "disk_rot" => Op::DiskRot { rec: gu("rec")? as usize, at: gu("at")? as usize, mask: gu("mask")? as u8 },
            "engine" => Op::Engine {
                c: gu("c")? as usize,
                task: gu("task")? as usize,
                e: match g("e")? {
                    "newgen" => EOp::NewGen,
                    "remove_move" => EOp::RemoveMove(gm("mv")?),
                    "remove_mask" => EOp::RemoveMask(gx("bb")?),
                    "set_mask" => EOp::SetMask(gx("bb")?),
                    "next" => EOp::Next,
                    "len" => EOp::Len,
                    "null" => EOp::Null,
                    "descend" => EOp::Descend { mv: gm("mv")?, dirty: gu("dirty")? as u32 },
                    "ascend" => EOp::Ascend,
                    "reset" => EOp::Reset,
                    "table_new" => EOp::TableNew { size: gu("size")? },
                    "table_get" => EOp::TableGet { key: gx("key")? },
                    "table_add" => EOp::TableAdd { key: gx("key")?, val: gu("val").unwrap_or(0) as u8 },
                    "table_replace_if" => EOp::TableReplaceIf { key: gx("key")?, pred: gu("pred")? as u8, val: gu("val").unwrap_or(0) as u8 },
                    "lib_walk" => {
                        let h = g("picks")?;
                        let mut v = vec![];
                        let hb = h.as_bytes();
                        let mut i = 0;
                        while i + 1 < hb.len() {
                            v.push(u8::from_str_radix(std::str::from_utf8(&hb[i..i + 2]).ok()?, 16).ok()?);
                            i += 2;
                        }
                        EOp::LibWalk { picks: v }
                    }
                    "lib_tree" => EOp::LibTree,
                    "edit" => {
                        let sq = parse_sq(g("sq")?)?;
                        let put = g("put")?;
                        let kind = if put == "-" {
                            None
                        } else {
                            Some((kind_p(&put[0..1])?, col_p(&put[1..2])?))
                        };
                        EOp::Edit { sq, kind }
                    }
                    "rights" => EOp::Rights { code: g("code")?.parse().ok()? },
                    "table_add_here" => EOp::TableAddHere { alias: gx("alias")? },
                    "table_get_here" => EOp::TableGetHere { alias: gx("alias")? },
                    _ => return None,
                },
            },
            "probe" => Op::Probe(match g("what")? {
                "can_claim" => Probe::CanClaim,
                "sweep" => Probe::Sweep,
                "san_all" => Probe::SanAll,
                "legal" => Probe::Legal(gm("mv")?),
                "position" => Probe::Position,
                _ => return None,
            }),
            "validate" => Op::Validate { text: gs("text")? },
            "validate_builder" => Op::ValidateBuilder {
                placement: gs("pl")?,
                stm: col_p(g("stm")?)?,
                castle: gu("castle")? as u8,
                ep_file: gu("ep")? as u8,
                order: gu("order").unwrap_or(0) as u8,
            },
            "pair" => Op::Pair { a: gs("a")?, b: gs("b")? },
            "decode_san" => Op::DecodeSan { fen: gs("fen")?, text: gs("text")? },
            "decode_uci" => Op::DecodeUci { text: gs("text")? },
            "decode_square" => Op::DecodeSquare { text: gs("text")? },
            "quiesce" => Op::Quiesce,
            _ => return None,
        };
        Some(Step { n, t, faults, op })
    }
}
