//! The executor: applies each op of the script to the REAL library objects and to the reference
//! model in lock-step, runs the node logic of the simulated deployment (server, two clients,
//! spectator, mirror shadows, journal) and evaluates the armed oracles. It has no PRNG and no clock:
//! it is a pure function of the script, which is what makes replay and minimisation exact.

use crate::conv::*;
use crate::engine::EngineState;
use crate::model::*;
use crate::ops::*;
use crate::oracle::*;
use crate::rng::{fp64, fp64b, Fnv};
use chess::{Action, Board, BoardBuilder, ChessMove, Color, Game, GameResult, MoveGen};
use std::collections::BTreeMap;
use std::convert::TryFrom;
use std::panic::{catch_unwind, AssertUnwindSafe};
use std::str::FromStr;

pub fn guard<T>(f: impl FnOnce() -> T) -> Result<T, String> {
    catch_unwind(AssertUnwindSafe(f)).map_err(|e| {
        if let Some(s) = e.downcast_ref::<&str>() {
            s.to_string()
        } else if let Some(s) = e.downcast_ref::<String>() {
            s.clone()
        } else {
            "panic".to_string()
        }
    })
}

pub const NPROP: usize = 21;

pub fn prop_index(id: &str) -> usize {
    id.trim_start_matches('C').parse::<usize>().unwrap_or(0)
}

#[derive(Copy, Clone, Debug, PartialEq, Eq, PartialOrd, Ord)]
pub enum Node {
    Server,
    Client(usize),
    Spectator,
    Arbiter,
}

#[derive(Clone, Debug, PartialEq, Eq)]
pub enum MKind {
    Act(CAct),
    Update,
    Nack,
    Snapshot,
}

#[derive(Clone, Debug)]
pub struct Msg {
    pub id: u32,
    pub from: Node,
    pub to: Node,
    pub kind: MKind,
    pub epoch: u32,
    pub seq: u32,
    pub bytes: Vec<u8>,
    pub orig: Vec<u8>,
    pub fp: u64,
    pub over: bool,
    /// snapshot / update provenance for the undetected-corruption oracle
    pub orig_board: Option<Board>,
    pub orig_pos: Option<Pos>,
    pub orig_mv: Option<Mv>,
}
impl Msg {
    pub fn corrupted(&self) -> bool {
        self.bytes != self.orig
    }
    pub fn text(&self) -> String {
        String::from_utf8_lossy(&self.bytes).into_owned()
    }
}

#[derive(Clone, Debug)]
pub struct MsgInfo {
    pub id: u32,
    pub from: Node,
    pub to: Node,
    pub is_act: bool,
    pub is_snapshot: bool,
    pub len: usize,
}

#[derive(Default, Clone, Debug)]
pub struct RunStats {
    pub counters: BTreeMap<&'static str, u64>,
    pub dyn_counters: BTreeMap<String, u64>,
    pub evals: u64,
    pub distinct: Vec<u64>,
    pub keys: Vec<(u64, u64, u64)>,
    pub plies: u64,
    pub sim_ms: u64,
}
impl RunStats {
    #[inline]
    pub fn cnt(&mut self, k: &'static str) {
        *self.counters.entry(k).or_insert(0) += 1;
    }
    pub fn add(&mut self, k: &'static str, n: u64) {
        *self.counters.entry(k).or_insert(0) += n;
    }
    pub fn cnt_dyn(&mut self, k: String) {
        *self.dyn_counters.entry(k).or_insert(0) += 1;
    }
}

pub struct Replica {
    pub up: bool,
    pub board: Option<Board>,
    pub pos: Option<Pos>,
    pub epoch: u32,
    pub seq: u32,
    pub over: bool,
    /// path by which the current board was obtained
    pub path: &'static str,
}
impl Replica {
    fn new() -> Replica {
        Replica { up: true, board: None, pos: None, epoch: 0, seq: 0, over: false, path: "none" }
    }
}

pub struct Server {
    pub up: bool,
    pub game: Option<Game>,
    pub model: Option<GameModel>,
    pub epoch: u32,
    pub journal: Vec<Vec<u8>>,
    pub torn_tail: Option<Vec<u8>>,
    pub start_board: Option<Board>,
    pub shadow_colour: Option<Game>,
    pub shadow_file: Option<Game>,
    /// the result once it exists (finality oracle)
    pub final_result: Option<GameResult>,
    pub quiesced: bool,
}

pub enum Flow {
    Go,
    /// library and model disagree about something that belongs to a property not armed in this
    /// check: the run is truncated and counted, never silently continued
    ForeignDivergence(String),
}

pub struct Exec {
    pub armed: u32,
    pub srv: Server,
    pub cl: [Replica; 2],
    pub spec: Replica,
    pub eng: [EngineState; 2],
    pub msgs: BTreeMap<u32, Msg>,
    pub stats: RunStats,
    pub digest: Fnv,
    pub dirty_pool: Vec<Board>,
    pub cur_n: u32,
    pub emitted: Vec<MsgInfo>,
    pub sub: u32,
    pub stamp: u32,
    /// when set, model FEN of the server position before each step is recorded (for re-rooting)
    pub record_roots: bool,
    pub roots: Vec<Option<String>>,
    /// census support: when a position with this key fingerprint is recorded, remember its FEN
    pub watch_key: Option<(u64, u64)>,
    pub watch_hit: Option<String>,
    /// a few positions monitored earlier in this run (revisited later: no answer may depend on call history)
    pub recent: Vec<(Board, Pos)>,
}

pub fn outcome_from_lib(r: GameResult) -> Outcome {
    match r {
        GameResult::WhiteCheckmates => Outcome::WhiteCheckmates,
        GameResult::WhiteResigns => Outcome::WhiteResigns,
        GameResult::BlackCheckmates => Outcome::BlackCheckmates,
        GameResult::BlackResigns => Outcome::BlackResigns,
        GameResult::Stalemate => Outcome::Stalemate,
        GameResult::DrawAccepted => Outcome::DrawAccepted,
        GameResult::DrawDeclared => Outcome::DrawDeclared,
    }
}
pub fn act_from_lib(a: &Action) -> Act {
    match a {
        Action::MakeMove(m) => Act::Move(mv_from_lib(*m)),
        Action::OfferDraw(c) => Act::Offer(col_from_lib(*c)),
        Action::AcceptDraw => Act::Accept,
        Action::DeclareDraw => Act::Declare,
        Action::Resign(c) => Act::Resign(col_from_lib(*c)),
    }
}
pub fn act_text(a: Act) -> String {
    match a {
        Act::Move(m) => format!("{}", lib_mv(m)), // real library rendering
        Act::Offer(c) => format!("offer:{}", if c == Col::W { "w" } else { "b" }),
        Act::Accept => "accept".into(),
        Act::Declare => "declare".into(),
        Act::Resign(c) => format!("resign:{}", if c == Col::W { "w" } else { "b" }),
    }
}
/// Decode a journal / update action text. Moves go through the library's coordinate parser.
pub fn parse_act_text(t: &str) -> Option<Act> {
    match t {
        "offer:w" => Some(Act::Offer(Col::W)),
        "offer:b" => Some(Act::Offer(Col::B)),
        "accept" => Some(Act::Accept),
        "declare" => Some(Act::Declare),
        "resign:w" => Some(Act::Resign(Col::W)),
        "resign:b" => Some(Act::Resign(Col::B)),
        _ => match guard(|| ChessMove::from_str(t)) {
            Ok(Ok(m)) => Some(Act::Move(mv_from_lib(m))),
            _ => None,
        },
    }
}

pub fn placement_to_squares(pl: &str) -> Option<[Option<(Kind, Col)>; 64]> {
    let b = pl.as_bytes();
    if b.len() != 64 {
        return None;
    }
    let mut sq = [None; 64];
    for i in 0..64 {
        sq[i] = match b[i] {
            b'.' => None,
            ch => {
                let c = if ch.is_ascii_uppercase() { Col::W } else { Col::B };
                let k = match ch.to_ascii_lowercase() {
                    b'p' => Kind::P,
                    b'n' => Kind::N,
                    b'b' => Kind::B,
                    b'r' => Kind::R,
                    b'q' => Kind::Q,
                    b'k' => Kind::K,
                    _ => return None,
                };
                Some((k, c))
            }
        };
    }
    Some(sq)
}
pub fn squares_to_placement(sq: &[Option<(Kind, Col)>; 64]) -> String {
    sq.iter()
        .map(|x| match x {
            None => '.',
            Some((k, Col::W)) => kind_letter_upper(*k),
            Some((k, Col::B)) => kind_letter_lower(*k),
        })
        .collect()
}
pub fn builder_state_pos(placement: &str, stm: Col, castle: u8, ep_file: u8) -> Option<Pos> {
    let mut p = Pos::empty();
    p.sq = placement_to_squares(placement)?;
    p.stm = stm;
    for i in 0..4 {
        p.castle[i] = castle & (1 << i) != 0;
    }
    if ep_file < 8 {
        // builder en-passant file f: the pawn that "just pushed" stands on the 4th/5th rank of the side NOT to move
        let target_rank = if stm == Col::W { 5 } else { 2 };
        p.ep = mk(ep_file as i32, target_rank);
    }
    Some(p)
}
pub fn builder_from_state(placement: &str, stm: Col, castle: u8, ep_file: u8, order: u8) -> Option<BoardBuilder> {
    let sq = placement_to_squares(placement)?;
    let ep = if ep_file < 8 { Some(chess::File::from_index(ep_file as usize)) } else { None };
    let wr = lib_rights(castle & 1 != 0, castle & 2 != 0);
    let br = lib_rights(castle & 4 != 0, castle & 8 != 0);
    if order & 8 != 0 {
        // everything at once through the documented constructor
        let mut pieces = vec![];
        for s in 0..64u8 {
            if let Some((k, c)) = sq[s as usize] {
                pieces.push((lib_sq(s), lib_kind(k), lib_col(c)));
            }
        }
        return Some(BoardBuilder::setup(&pieces, lib_col(stm), wr, br, ep));
    }
    // the builder's documented semantics are order-independent (each setter overwrites one field):
    // the same final state is reached through different call orders
    let mut b = BoardBuilder::new();
    let put_pieces = |b: &mut BoardBuilder| {
        for s in 0..64u8 {
            if let Some((k, c)) = sq[s as usize] {
                b.piece(lib_sq(s), lib_kind(k), lib_col(c));
            }
        }
    };
    let put_rights = |b: &mut BoardBuilder| {
        b.castle_rights(Color::White, wr);
        b.castle_rights(Color::Black, br);
    };
    if order & 4 != 0 {
        b.side_to_move(lib_col(stm.other()));
    }
    if order & 2 != 0 {
        put_rights(&mut b);
        put_pieces(&mut b);
    } else {
        put_pieces(&mut b);
        put_rights(&mut b);
    }
    if order & 1 != 0 {
        b.en_passant(ep);
        b.side_to_move(lib_col(stm));
    } else {
        b.side_to_move(lib_col(stm));
        b.en_passant(ep);
    }
    Some(b)
}

impl Exec {
    pub fn new(armed: u32) -> Exec {
        Exec {
            armed,
            srv: Server {
                up: true,
                game: None,
                model: None,
                epoch: 0,
                journal: vec![],
                torn_tail: None,
                start_board: None,
                shadow_colour: None,
                shadow_file: None,
                final_result: None,
                quiesced: false,
            },
            cl: [Replica::new(), Replica::new()],
            spec: Replica::new(),
            eng: [EngineState::new(), EngineState::new()],
            msgs: BTreeMap::new(),
            stats: RunStats::default(),
            digest: Fnv::new(),
            dirty_pool: vec![],
            cur_n: 0,
            emitted: vec![],
            sub: 0,
            stamp: 0,
            record_roots: false,
            roots: vec![],
            watch_key: None,
            watch_hit: None,
            recent: vec![],
        }
    }

    #[inline]
    pub fn on(&self, p: usize) -> bool {
        self.armed & (1 << p) != 0
    }

    /// One oracle evaluation of armed property `p` on the case with fingerprint `fp`.
    #[inline]
    pub fn eval(&mut self, fp: u64, nontrivial: bool) {
        self.stats.evals += 1;
        if nontrivial {
            self.stats.distinct.push(fp);
        }
    }

    fn new_msg_id(&mut self) -> u32 {
        let id = self.cur_n * 8 + self.sub;
        self.sub += 1;
        id
    }

    fn emit(&mut self, m: Msg) {
        self.digest.u64(m.id as u64);
        self.digest.bytes(&m.bytes);
        self.emitted.push(MsgInfo {
            id: m.id,
            from: m.from,
            to: m.to,
            is_act: matches!(m.kind, MKind::Act(_)),
            is_snapshot: m.kind == MKind::Snapshot,
            len: m.bytes.len(),
        });
        self.msgs.insert(m.id, m);
    }

    pub fn server_pos(&self) -> Option<&Pos> {
        self.srv.model.as_ref().map(|g| &g.pos)
    }

    /// Apply one step. Ok(Flow) or the violation of an armed property.
    pub fn step(&mut self, s: &Step) -> Result<Flow, Violation> {
        self.cur_n = s.n;
        self.sub = 0;
        self.emitted.clear();
        self.digest.u64(s.n as u64);
        if self.record_roots {
            self.roots.push(self.srv.model.as_ref().map(|g| g.pos.fen()));
        }
        let r = self.apply(&s.op);
        if let Ok(Flow::Go) = &r {
            self.digest.u64(self.stats.evals);
        }
        r
    }

    fn apply(&mut self, op: &Op) -> Result<Flow, Violation> {
        match op {
            Op::StartFen { text } => self.start_fen(text),
            Op::StartBuilder { placement, stm, castle, ep_file, order } => self.start_builder(placement, *stm, *castle, *ep_file, *order),
            Op::ClientAct { c, act } => match *c {
                0 | 1 => self.client_act(Node::Client(*c), act),
                _ => self.client_act(Node::Spectator, act),
            },
            Op::ArbiterAct { act } => self.client_act(Node::Arbiter, act),
            Op::Corrupt { id, how } => {
                self.corrupt(*id, how);
                Ok(Flow::Go)
            }
            Op::Deliver { id, crash } => self.deliver(*id, *crash),
            Op::CrashServer => {
                self.crash_server();
                Ok(Flow::Go)
            }
            Op::RestartServer => self.restart_server(),
            Op::CrashClient { c } => {
                if *c > 1 {
                    return Ok(Flow::Go);
                }
                let r = &mut self.cl[*c];
                r.up = false;
                r.board = None;
                r.pos = None;
                self.eng[*c] = EngineState::new();
                self.stats.cnt("fault.P-CRASH-C");
                Ok(Flow::Go)
            }
            Op::RestartClient { c } => {
                if *c > 1 {
                    return Ok(Flow::Go);
                }
                let r = &mut self.cl[*c];
                if !r.up {
                    r.up = true;
                    r.seq = 0;
                    r.epoch = 0;
                    r.over = false;
                    r.path = "none";
                }
                Ok(Flow::Go)
            }
            Op::DiskRot { rec, at, mask } => {
                if let Some(r) = self.srv.journal.get_mut(*rec) {
                    if let Some(b) = r.get_mut(*at) {
                        *b ^= *mask;
                        self.stats.cnt("fault.D-ROT");
                    }
                }
                Ok(Flow::Go)
            }
            Op::Engine { c, task, e } => self.engine_op(*c, *task, e),
            Op::Probe(p) => self.probe(p),
            Op::Validate { text } => self.validate_text(text),
            Op::ValidateBuilder { placement, stm, castle, ep_file, order } => {
                self.validate_builder(placement, *stm, *castle, *ep_file, *order)
            }
            Op::Pair { a, b } => self.pair(a, b),
            Op::DecodeSan { fen, text } => self.decode_san_op(fen, text),
            Op::DecodeUci { text } => self.decode_uci_op(text),
            Op::DecodeSquare { text } => self.decode_square_op(text),
            Op::Quiesce => {
                self.srv.quiesced = true;
                Ok(Flow::Go)
            }
        }
    }

    // ------------------------------------------------------------------------------ start

    fn install_start(&mut self, board: Board, pos: Pos, game: Game, path: &'static str) -> Result<Flow, Violation> {
        // the model position's en-passant target is kept only if it is a genuine "just double-pushed" state
        self.srv.up = true;
        self.srv.epoch = 1;
        self.srv.start_board = Some(board);
        self.srv.final_result = None;
        self.srv.journal = vec![format!("START {} {:016x}", board, board.get_hash()).into_bytes()];
        self.srv.torn_tail = None;
        self.srv.model = Some(GameModel::new(pos.clone()));
        self.srv.game = Some(game);
        self.srv.shadow_colour = None;
        self.srv.shadow_file = None;
        if self.on(17) {
            if let Ok(m) = mirror_board(&board, true) {
                self.srv.shadow_colour = Some(Game::new_with_board(m));
            }
            if pos.castle == [false; 4] {
                if let Ok(m) = mirror_board(&board, false) {
                    self.srv.shadow_file = Some(Game::new_with_board(m));
                }
            }
        }
        self.dirty_pool.push(board);
        self.monitor_position(&board, &pos, path, None)?;
        if self.on(10) || self.on(4) {
            self.check_game_view()?;
        }
        Ok(Flow::Go)
    }

    fn start_fen(&mut self, text: &str) -> Result<Flow, Violation> {
        let pos = match Pos::from_fen(text) {
            Some(p) => p,
            None => return Ok(Flow::Go), // not a standard FEN: nothing to start (text fuzzing uses Validate)
        };
        if pos.strict_validity_error().is_some() {
            return Ok(Flow::Go);
        }
        let initial = text.starts_with("rnbqkbnr/pppppppp/8/8/8/8/PPPPPPPP/RNBQKBNR w KQkq -");
        let game = match guard(|| {
            // the initial position also has two dedicated constructors
            if initial && pos.fullmove % 3 == 1 {
                Ok(Game::new())
            } else if initial && pos.fullmove % 3 == 2 {
                Ok(Game::new_with_board(Board::default()))
            } else {
                Game::from_str(text)
            }
        }) {
            Ok(Ok(g)) => g,
            Ok(Err(e)) => {
                if self.on(7) {
                    return Err(viol("C07", "completeness/valid_position_rejected", format!("{:?}: {:?}", text, e)));
                }
                if self.on(6) {
                    return Err(viol("C06", "roundtrip/standard_text_rejected", format!("{:?}: {:?}", text, e)));
                }
                return Ok(Flow::ForeignDivergence(format!("valid start FEN rejected: {}", text)));
            }
            Err(p) => {
                if self.on(7) {
                    return Err(viol("C07", "totality/panic/from_str", format!("{:?}: {}", text, p)));
                }
                return Ok(Flow::ForeignDivergence(format!("panic on start FEN {}: {}", text, p)));
            }
        };
        let board = game.current_position();
        self.install_start(board, pos, game, "start_fen")
    }

    fn start_builder(&mut self, placement: &str, stm: Col, castle: u8, ep_file: u8, order: u8) -> Result<Flow, Violation> {
        let pos = match builder_state_pos(placement, stm, castle, ep_file) {
            Some(p) => p,
            None => return Ok(Flow::Go),
        };
        if pos.strict_validity_error().is_some() {
            return Ok(Flow::Go);
        }
        let bb = builder_from_state(placement, stm, castle, ep_file, order).unwrap();
        let board = match guard(|| Board::try_from(&bb)) {
            Ok(Ok(b)) => b,
            Ok(Err(e)) => {
                if self.on(7) {
                    return Err(viol(
                        "C07",
                        "completeness/valid_position_rejected",
                        format!("builder state of {}: {:?}", pos.fen(), e),
                    ));
                }
                return Ok(Flow::ForeignDivergence(format!("valid builder start rejected: {}", pos.fen())));
            }
            Err(p) => {
                if self.on(7) {
                    return Err(viol("C07", "totality/panic/try_from", format!("{}: {}", pos.fen(), p)));
                }
                return Ok(Flow::ForeignDivergence(format!("panic on builder start {}: {}", pos.fen(), p)));
            }
        };
        let game = Game::new_with_board(board);
        self.install_start(board, pos, game, "builder")
    }

    // ------------------------------------------------------------------------------ position monitors

    /// All armed per-position oracles on one (board, model position) pair.
    pub fn monitor_position(
        &mut self,
        b: &Board,
        p: &Pos,
        path: &'static str,
        prev: Option<(&Board, &Pos, Mv)>,
    ) -> Result<(), Violation> {
        let kb = p.key_beside();
        let kfp = fp64(&kb);
        // features (cheap ones always; they feed the reach probes)
        let in_check = p.in_check();
        if self.on(1) {
            guard(|| c01_movegen(b, p)).map_err(|e| viol("C01", "movegen/panic", format!("{} in {}", e, p.fen())))??;
            let nt = in_check
                || !p.pinned().is_empty()
                || p.ep.is_some()
                || p.castle != [false; 4]
                || p.legal_moves().iter().any(|m| m.promo.is_some());
            self.eval(kfp, nt);
            self.reach_probes(p);
        }
        if self.on(3) {
            c03_caches(b, p, path)?;
            let nt = in_check || !p.pinned().is_empty() || path != "incremental";
            self.eval(kfp ^ fp64(path.as_bytes()), nt);
            if in_check {
                self.stats.cnt("reach.in_check");
            }
            if !p.pinned().is_empty() {
                self.stats.cnt("reach.pinned_man");
            }
        }
        if self.on(4) {
            c04_status(b, p)?;
            let lm = p.legal_moves().len();
            self.eval(kfp, lm <= 1 || in_check);
            match p.status() {
                Status::Checkmate => self.stats.cnt("reach.checkmate"),
                Status::Stalemate => self.stats.cnt("reach.stalemate"),
                Status::Ongoing => {}
            }
        }
        if self.on(5) {
            c05_valid(b, p)?;
            if let Some((pb, pp, m)) = prev {
                c05_monotone(pb, b)?;
                let special = pp.is_capture(m)
                    || m.promo.is_some()
                    || pp.is_castle(m)
                    || (pp.castle != p.castle)
                    || pp.is_ep(m);
                self.eval(kfp ^ fp64b(&pp.key_beside()), special);
            } else {
                self.eval(kfp, false);
            }
        }
        if self.on(9) {
            if let Some((pb, pp, m)) = prev {
                // a position and its successor are two different positions
                self.stats.evals += 1;
                if pb.get_hash() == b.get_hash() {
                    return Err(viol(
                        "C09",
                        "sibling/same_hash/successor",
                        format!("{} and its successor by {} both hash to {:016x} ({})", pp.fen(), m.uci(), b.get_hash(), path),
                    ));
                }
            }
        }
        if self.on(6) {
            c06_fen(b, p)?;
            let partial = p.castle != [false; 4] && p.castle != [true; 4];
            self.eval(kfp, p.ep.is_some() || partial || p.stm == Col::B);
            if p.ep.is_some() {
                self.stats.cnt("reach.ep_target_present");
                if p.ep_capture_legal() {
                    self.stats.cnt("reach.ep_capture_legal");
                } else if p.ep_pawn_beside() {
                    self.stats.cnt("reach.ep_beside_but_illegal");
                }
            }
        }
        if self.on(8) || self.on(9) {
            if self.on(8) {
                c08_paths(b, p, path)?;
                // through a null move and back: without en-passant state, passing twice is the identity
                if b.en_passant().is_none() {
                    if let Some(n) = b.null_move() {
                        if let Some(nn) = n.null_move() {
                            self.stats.cnt("reach.null_null_identity_checked");
                            if nn != *b || nn.get_hash() != b.get_hash() || std_hash(&nn) != std_hash(b) {
                                return Err(viol(
                                    "C08",
                                    &format!("hash/null_move_twice_not_identity/{}", path),
                                    format!("null_move().null_move() of {} gives {} ({:016x} vs {:016x})", p.fen(), nn, nn.get_hash(), b.get_hash()),
                                ));
                            }
                        }
                    }
                }
            }
            if self.on(9) {
                // the side-to-move sibling built by null_move must hash differently
                if let Some(n) = b.null_move() {
                    self.stats.cnt("reach.null_move_sibling_checked");
                    if n.get_hash() == b.get_hash() {
                        return Err(viol(
                            "C09",
                            "sibling/same_hash/side_via_null_move",
                            format!("{} and its null-moved sibling both hash to {:016x}", p.fen(), b.get_hash()),
                        ));
                    }
                }
            }
            self.stats.keys.push((kfp, fp64b(&kb), b.get_hash()));
            if self.watch_key == Some((kfp, fp64b(&kb))) && self.watch_hit.is_none() {
                self.watch_hit = Some(p.fen_ep_if_beside());
            }
            self.eval(kfp ^ fp64(path.as_bytes()), path != "incremental");
        }
        if self.on(17) {
            guard(|| c17_mirror(b, true)).map_err(|e| viol("C17", "colour/panic", format!("{} in {}", e, p.fen())))??;
            let mut nt = p.mirror_colour() != *p;
            if p.castle == [false; 4] {
                guard(|| c17_mirror(b, false)).map_err(|e| viol("C17", "file/panic", format!("{} in {}", e, p.fen())))??;
                self.stats.cnt("reach.file_mirror_checked");
            }
            nt = nt && (p.ep.is_some() || p.castle != [false; 4] || in_check || !p.pinned().is_empty()
                || p.legal_moves().iter().any(|m| m.promo.is_some()));
            self.eval(kfp, nt);
        }
        if self.on(18) {
            c18_null(b, p)?;
            self.eval(kfp, in_check || p.ep_pawn_beside() || {
                let mut q = p.clone();
                q.stm = p.stm.other();
                q.ep = None;
                !q.pinned().is_empty()
            });
            if in_check {
                self.stats.cnt("reach.null_in_check");
            }
            if p.ep_pawn_beside() {
                self.stats.cnt("reach.null_with_ep_state");
            }
        }
        if self.on(12) && path != "engine" && path != "replica_incremental" && path != "snapshot" {
            // all spellings of all legal moves: once per position on the server (replicas hold the same positions)
            self.san_all(b, p)?;
        }
        if (self.on(1) || self.on(4)) && p.ep_pawn_beside() {
            // call-history independence: the position and its en-passant twin queried alternately
            guard(|| twin_probe(b, p, self.on(1), self.on(4)))
                .map_err(|e| viol(if self.on(1) { "C01" } else { "C04" }, "twin_probe/panic", format!("{} in {}", e, p.fen())))??;
            self.stats.cnt("reach.ep_twin_probed");
        }
        if self.on(1) || self.on(4) {
            // revisit an earlier position of this run: its answers must be what they were
            if !self.recent.is_empty() {
                let (ob, op) = self.recent[(self.cur_n as usize) % self.recent.len()].clone();
                if self.on(1) {
                    c01_movegen(&ob, &op)?;
                    for m in op.legal_moves().iter().take(3) {
                        c01_legal_query(&ob, &op, *m)?;
                    }
                }
                if self.on(4) {
                    c04_status(&ob, &op)?;
                }
                self.stats.cnt("reach.earlier_position_revisited");
            }
            if self.recent.len() < 16 {
                self.recent.push((*b, p.clone()));
            } else {
                let i = (self.cur_n as usize) % 16;
                self.recent[i] = (*b, p.clone());
            }
        }
        Ok(())
    }

    fn reach_probes(&mut self, p: &Pos) {
        let ch = p.checkers().len();
        if ch == 1 {
            self.stats.cnt("reach.single_check");
        } else if ch >= 2 {
            self.stats.cnt("reach.double_check");
        }
        if !p.pinned().is_empty() {
            self.stats.cnt("reach.pinned_man");
        }
        if p.ep.is_some() && p.ep_pawn_beside() {
            self.stats.cnt("reach.ep_state");
            if !p.ep_capture_legal() {
                self.stats.cnt("reach.ep_capture_illegal_pin_or_check");
            }
        }
        if p.castle != [false; 4] {
            self.stats.cnt("reach.castle_rights");
        }
        let lm = p.legal_moves();
        if lm.iter().any(|m| p.is_castle(*m)) {
            self.stats.cnt("reach.castling_available");
        }
        if lm.iter().any(|m| m.promo.is_some()) {
            self.stats.cnt("reach.promotion_available");
        }
        if lm.is_empty() {
            self.stats.cnt("reach.terminal");
        }
    }

    // ------------------------------------------------------------------------------ client side: compose

    fn client_act(&mut self, from: Node, act: &CAct) -> Result<Flow, Violation> {
        if let Node::Client(c) = from {
            if !self.cl[c].up {
                return Ok(Flow::Go);
            }
        }
        let mut orig_mv = None;
        let bytes: Vec<u8> = match act {
            CAct::Move { mv, enc } => {
                orig_mv = *mv;
                match enc {
                    Enc::Api => vec![],
                    Enc::Uci => match mv {
                        Some(m) => {
                            // real library rendering of the move value
                            let text = format!("{}", lib_mv(*m));
                            if self.on(13) {
                                if text != m.uci() {
                                    return Err(viol(
                                        "C13",
                                        "format/move_text",
                                        format!("library renders {:?}, expected {:?}", text, m.uci()),
                                    ));
                                }
                                self.stats.cnt_dyn(format!("mv.{}", m.uci()));
                            }
                            text.into_bytes()
                        }
                        None => return Ok(Flow::Go),
                    },
                    Enc::San(s) => s.text().into_bytes(),
                    Enc::Raw { text, .. } => text.clone().into_bytes(),
                }
            }
            _ => vec![],
        };
        let (epoch, seq) = match from {
            Node::Client(c) => (self.cl[c].epoch, self.cl[c].seq),
            Node::Spectator => (self.spec.epoch, self.spec.seq),
            _ => (0, 0),
        };
        let id = self.new_msg_id();
        self.emit(Msg {
            id,
            from,
            to: Node::Server,
            kind: MKind::Act(act.clone()),
            epoch,
            seq,
            orig: bytes.clone(),
            bytes,
            fp: 0,
            over: false,
            orig_board: None,
            orig_pos: None,
            orig_mv,
        });
        Ok(Flow::Go)
    }

    fn corrupt(&mut self, id: u32, how: &Corr) {
        if let Some(m) = self.msgs.get_mut(&id) {
            match how {
                Corr::Xor { at, mask } => {
                    if let Some(b) = m.bytes.get_mut(*at) {
                        *b ^= *mask;
                    }
                }
                Corr::Trunc { len } => {
                    if *len < m.bytes.len() {
                        m.bytes.truncate(*len);
                    }
                }
                Corr::Insert { at, text } => {
                    let at = (*at).min(m.bytes.len());
                    let tail = m.bytes.split_off(at);
                    m.bytes.extend_from_slice(text.as_bytes());
                    m.bytes.extend_from_slice(&tail);
                }
                Corr::Set { text } => m.bytes = text.clone().into_bytes(),
            }
        }
    }

    // ------------------------------------------------------------------------------ delivery

    fn deliver(&mut self, id: u32, crash: Option<CrashPoint>) -> Result<Flow, Violation> {
        let m = match self.msgs.get(&id) {
            Some(m) => m.clone(),
            None => return Ok(Flow::Go),
        };
        match m.to {
            Node::Server => self.server_receive(m, crash),
            Node::Client(c) => self.replica_receive(Some(c), m),
            Node::Spectator => self.replica_receive(None, m),
            Node::Arbiter => Ok(Flow::Go),
        }
    }

    // ------------------------------------------------------------------------------ server

    fn crash_server(&mut self) {
        if self.srv.up {
            self.srv.up = false;
            self.srv.game = None;
            self.srv.shadow_colour = None;
            self.srv.shadow_file = None;
            self.stats.cnt("fault.P-CRASH-S");
        }
    }

    fn reply(&mut self, to: Node, kind: MKind, text: String, fp: u64, board: Option<Board>, pos: Option<Pos>, mv: Option<Mv>) {
        let id = self.new_msg_id();
        let (epoch, seq, over) = {
            let g = self.srv.model.as_ref();
            (self.srv.epoch, g.map(|g| g.log.len() as u32).unwrap_or(0), g.map(|g| !g.open()).unwrap_or(false))
        };
        let bytes = text.into_bytes();
        self.emit(Msg {
            id,
            from: Node::Server,
            to,
            kind,
            epoch,
            seq,
            orig: bytes.clone(),
            bytes,
            fp,
            over,
            orig_board: board,
            orig_pos: pos,
            orig_mv: mv,
        });
    }

    fn snapshot_to(&mut self, to: Node) {
        if let (Some(game), Some(gm)) = (self.srv.game.as_ref(), self.srv.model.as_ref()) {
            let b = game.current_position();
            let text = format!("{}", b); // real library FEN
            let pos = gm.pos.clone();
            self.reply(to, MKind::Snapshot, text, b.get_hash(), Some(b), Some(pos), None);
        }
    }

    /// Decode the move text of an arriving action with the real parsers, under the C12 / C13 oracles.
    /// Ok(None) = undecodable (the server nacks it).
    fn decode_move(&mut self, m: &Msg, mv: Option<Mv>, enc: &Enc) -> Result<Option<ChessMove>, Violation> {
        let text = m.text();
        let corrupted = m.corrupted();
        if *enc == Enc::Api {
            // no text: the value itself is handed to the game
            return Ok(mv.map(lib_mv));
        }
        let as_san = match enc {
            Enc::Api => false,
            Enc::Uci => false,
            Enc::San(_) => true,
            Enc::Raw { san, .. } => *san,
        };
        if !as_san {
            let r = guard(|| ChessMove::from_str(&text));
            let r = match r {
                Err(p) => {
                    if self.on(13) {
                        return Err(viol("C13", "totality/panic/move", format!("{:?}: {}", text, p)));
                    }
                    return Ok(None);
                }
                Ok(r) => r,
            };
            if self.on(13) {
                let raw = matches!(enc, Enc::Raw { .. });
                self.eval(fp64(text.as_bytes()), corrupted || raw || mv.map_or(false, |x| x.promo.is_some()));
                if corrupted {
                    self.stats.cnt("reach.uci_corrupted_decode");
                }
                match &r {
                    Ok(v) => {
                        let back = format!("{}", v);
                        if !text.starts_with(&back) {
                            return Err(viol(
                                "C13",
                                "prefix/rendering_not_prefix_of_input",
                                format!("{:?} parsed to {:?}", text, back),
                            ));
                        }
                        if !corrupted && !raw {
                            if let Some(want) = mv {
                                if mv_from_lib(*v) != want {
                                    return Err(viol(
                                        "C13",
                                        "roundtrip/move_not_identical",
                                        format!("{} rendered {:?} parsed back as {}", want.uci(), text, back),
                                    ));
                                }
                            }
                        }
                    }
                    Err(_) => {
                        if !corrupted && !raw && mv.is_some() {
                            return Err(viol(
                                "C13",
                                "roundtrip/own_text_rejected",
                                format!("{:?} (rendering of {}) rejected", text, mv.unwrap().uci()),
                            ));
                        }
                    }
                }
            }
            return Ok(r.ok());
        }
        // SAN against the server's current position
        let board = match self.srv.game.as_ref() {
            Some(g) => g.current_position(),
            None => return Ok(None),
        };
        let pos = self.srv.model.as_ref().unwrap().pos.clone();
        let spec = match enc {
            Enc::San(s) if !corrupted => Some(s.clone()),
            _ => None,
        };
        let r = self.san_decode(&board, &pos, &text, spec.as_ref())?;
        Ok(r)
    }

    fn server_receive(&mut self, m: Msg, crash: Option<CrashPoint>) -> Result<Flow, Violation> {
        if !self.srv.up || self.srv.game.is_none() {
            self.stats.cnt("net.lost_server_down");
            return Ok(Flow::Go);
        }
        let cact = match &m.kind {
            MKind::Act(a) => a.clone(),
            _ => return Ok(Flow::Go),
        };
        if cact == CAct::SnapReq {
            self.snapshot_to(m.from);
            return Ok(Flow::Go);
        }
        if m.seq < self.srv.model.as_ref().unwrap().log.len() as u32 && m.from != Node::Arbiter {
            self.stats.cnt("reach.action_from_stale_replica");
        }
        if self.srv.final_result.is_some() {
            self.stats.cnt("reach.action_after_result");
        }
        if m.corrupted() {
            self.stats.cnt("reach.corrupted_action_delivered");
        }
        let act: Option<Act> = match &cact {
            CAct::SnapReq => None,
            CAct::Move { mv, enc } => match self.decode_move(&m, *mv, enc)? {
                Some(v) => Some(Act::Move(mv_from_lib(v))),
                None => None,
            },
            CAct::Offer(c) => Some(Act::Offer(*c)),
            CAct::Accept => Some(Act::Accept),
            CAct::Resign(c) => Some(Act::Resign(*c)),
            CAct::Claim => Some(Act::Declare),
        };
        let act = match act {
            Some(a) => a,
            None => {
                self.stats.cnt("srv.undecodable");
                self.reply(m.from, MKind::Nack, String::new(), 0, None, None, None);
                return Ok(Flow::Go);
            }
        };
        // the legality query sees every arriving move value (C01)
        if self.on(1) {
            if let Act::Move(mv) = act {
                let b = self.srv.game.as_ref().unwrap().current_position();
                let p = self.srv.model.as_ref().unwrap().pos.clone();
                guard(|| c01_legal_query(&b, &p, mv))
                    .map_err(|e| viol("C01", "legal_query/panic", format!("{} on {} in {}", e, mv.uci(), p.fen())))??;
                self.stats.cnt("reach.legal_query_on_arrival");
            }
        }
        let accepted = match self.apply_action(act)? {
            Ok(a) => a,
            Err(flow) => return Ok(flow),
        };
        if !accepted {
            self.reply(m.from, MKind::Nack, String::new(), 0, None, None, None);
            return Ok(Flow::Go);
        }
        // journal: append, fsync, then broadcast — with crash points in between
        let hash_after = self.srv.game.as_ref().unwrap().current_position().get_hash();
        let seq = self.srv.model.as_ref().unwrap().log.len();
        let text = act_text(act);
        let rec = format!("ACT {} {} {:016x}", seq, text, hash_after).into_bytes();
        match crash {
            Some(CrashPoint::BeforeAppend) => {
                self.stats.cnt("fault.crash_before_append");
                self.crash_server();
                return Ok(Flow::Go);
            }
            Some(CrashPoint::AppendedLost) => {
                self.stats.cnt("fault.D-LOST");
                self.crash_server();
                return Ok(Flow::Go);
            }
            Some(CrashPoint::AppendedTorn { keep }) => {
                let k = keep.min(rec.len().saturating_sub(1));
                self.srv.torn_tail = Some(rec[..k].to_vec());
                self.stats.cnt("fault.D-TORN");
                self.crash_server();
                return Ok(Flow::Go);
            }
            _ => {}
        }
        self.srv.journal.push(rec);
        if crash == Some(CrashPoint::SyncedNoBroadcast) {
            self.stats.cnt("fault.crash_after_sync");
            self.crash_server();
            return Ok(Flow::Go);
        }
        let (b, p) = {
            let g = self.srv.game.as_ref().unwrap();
            (g.current_position(), self.srv.model.as_ref().unwrap().pos.clone())
        };
        let mv = if let Act::Move(mv) = act { Some(mv) } else { None };
        for to in [Node::Client(0), Node::Client(1), Node::Spectator] {
            self.reply(to, MKind::Update, text.clone(), hash_after, Some(b), Some(p.clone()), mv);
        }
        Ok(Flow::Go)
    }

    /// Apply one decoded action to the real Game and to the model under the C10 / C11 oracles.
    /// Ok(Ok(accepted)) | Ok(Err(flow)) for a foreign divergence.
    fn apply_action(&mut self, act: Act) -> Result<Result<bool, Flow>, Violation> {
        let c10 = self.on(10);
        let c11 = self.on(11);
        let gm_before = self.srv.model.as_ref().unwrap().clone();
        let allowed = gm_before.allowed(act);
        let (claim_a, claim_b) = gm_before.claimable();
        let game = self.srv.game.as_mut().unwrap();
        let before_actions = game.actions().clone();
        let before_pos = game.current_position();
        let was_final = self.srv.final_result;
        let res = guard(|| match act {
            Act::Move(m) => game.make_move(lib_mv(m)),
            Act::Offer(c) => game.offer_draw(lib_col(c)),
            Act::Accept => game.accept_draw(),
            Act::Resign(c) => game.resign(lib_col(c)),
            Act::Declare => game.declare_draw(),
        });
        let accepted = match res {
            Ok(a) => a,
            Err(p) => {
                if c10 {
                    return Err(viol("C10", "action/panic", format!("{:?} panicked: {} in {}", act, p, gm_before.pos.fen())));
                }
                return Ok(Err(Flow::ForeignDivergence(format!("panic in Game action {:?}: {}", act, p))));
            }
        };
        let kind = match act {
            Act::Move(_) => "move",
            Act::Offer(_) => "offer",
            Act::Accept => "accept",
            Act::Resign(_) => "resign",
            Act::Declare => "declare",
        };
        // acceptance
        let mut divergence: Option<String> = None;
        match act {
            Act::Move(m) => {
                if accepted != allowed {
                    let sig = if accepted {
                        if !gm_before.open() {
                            "move/accepted_after_result".to_string()
                        } else {
                            format!("move/accepted_illegal/{}", move_class_illegal(&gm_before.pos, m))
                        }
                    } else {
                        format!("move/refused_legal/{}", move_class(&gm_before.pos, m))
                    };
                    let d = format!(
                        "Game::make_move({}) returned {} but model says {} (open={}) in {}",
                        m.uci(),
                        accepted,
                        allowed,
                        gm_before.open(),
                        gm_before.pos.fen()
                    );
                    if c10 {
                        return Err(viol("C10", &sig, d));
                    }
                    divergence = Some(d);
                }
            }
            Act::Declare => {
                // C11: exactly; C10: only the finality direction (claim accepted on a finished game)
                if claim_a == claim_b {
                    if accepted != claim_a {
                        let sig = self.claim_sig(&gm_before, accepted, "declare");
                        let d = format!(
                            "declare_draw() returned {} but expected {} (occurrences {}, clock {}) in {}",
                            accepted,
                            claim_a,
                            gm_before.occurrences(false),
                            gm_before.clock,
                            gm_before.pos.fen()
                        );
                        if c11 {
                            return Err(viol("C11", &sig, d));
                        }
                        if c10 && accepted && !gm_before.open() {
                            return Err(viol("C10", "declare/accepted_after_result", d));
                        }
                        divergence = Some(d);
                    }
                } else {
                    self.stats.cnt("na.ambiguous_ep_not_asserted");
                }
                if c11 {
                    self.c11_eval(&gm_before);
                }
            }
            Act::Offer(_) | Act::Resign(_) | Act::Accept => {
                if accepted && !allowed {
                    let sig = if !gm_before.open() {
                        format!("{}/accepted_after_result", kind)
                    } else {
                        format!("{}/accepted_without_pending_offer", kind)
                    };
                    let d = format!("{:?} accepted but the rule refuses it; log tail {:?}", act, tail(&gm_before.log));
                    if c10 {
                        return Err(viol("C10", &sig, d));
                    }
                    divergence = Some(d);
                } else if !accepted && allowed {
                    self.stats.cnt("na.refused_although_rule_allows");
                }
            }
        }
        if let Some(d) = divergence {
            return Ok(Err(Flow::ForeignDivergence(d)));
        }
        let game = self.srv.game.as_ref().unwrap();
        if c10 {
            // refused action changes nothing
            if !accepted {
                if *game.actions() != before_actions {
                    return Err(viol("C10", &format!("{}/refused_but_log_changed", kind), format!("{:?}", act)));
                }
                if game.current_position() != before_pos {
                    return Err(viol("C10", &format!("{}/refused_but_position_changed", kind), format!("{:?}", act)));
                }
            } else if game.actions().len() != before_actions.len() + 1 {
                return Err(viol("C10", &format!("{}/accepted_but_log_not_extended_by_one", kind), format!("{:?}", act)));
            }
            let last2 = {
                let l = &gm_before.log;
                (l.len().checked_sub(1).map(|i| act_kind(l[i])), l.len().checked_sub(2).map(|i| act_kind(l[i])))
            };
            let mut f = Fnv::new();
            f.bytes(&gm_before.pos.key_beside());
            f.str(&format!("{:?}{:?}{:?}{}", last2, act, accepted, gm_before.open()));
            let nontrivial = !(matches!(act, Act::Move(_)) && accepted);
            self.eval(f.0, nontrivial);
            self.stats.cnt_dyn(format!("act.{}.{}", kind, if accepted { "accepted" } else { "refused" }));
        }
        if accepted {
            let prev_pos = gm_before.pos.clone();
            self.srv.model.as_mut().unwrap().push(act);
            if let Act::Move(mv) = act {
                self.stats.plies += 1;
                let nb = self.srv.game.as_ref().unwrap().current_position();
                let np = self.srv.model.as_ref().unwrap().pos.clone();
                // C02: the same (position, move) through both entry points with a used output buffer
                if self.on(2) {
                    let dirty = if self.dirty_pool.is_empty() { before_pos } else { self.dirty_pool[(self.cur_n as usize) % self.dirty_pool.len()] };
                    guard(|| c02_successor(&before_pos, &prev_pos, mv, &dirty))
                        .map_err(|e| viol("C02", "successor/panic", format!("{} on {} in {}", e, mv.uci(), prev_pos.fen())))??;
                    let mut f = Fnv::new();
                    f.bytes(&prev_pos.key_beside());
                    f.str(&mv.uci());
                    let nt = prev_pos.is_capture(mv)
                        || prev_pos.is_castle(mv)
                        || mv.promo.is_some()
                        || prev_pos.is_double_push(mv)
                        || prev_pos.castle != np.castle;
                    self.eval(f.0, nt);
                    self.c02_reach(&prev_pos, mv);
                }
                if self.dirty_pool.len() < 64 {
                    self.dirty_pool.push(nb);
                } else {
                    let i = (self.cur_n as usize) % 64;
                    self.dirty_pool[i] = nb;
                }
                self.monitor_position(&nb, &np, "incremental", Some((&before_pos, &prev_pos, mv)))?;
                self.shadow_step(mv)?;
            }
        }
        if c10 || self.on(4) {
            self.check_game_view()?;
        }
        if c10 {
            // finality
            if let Some(r) = was_final {
                let now = self.srv.game.as_ref().unwrap().result();
                if now != Some(r) {
                    return Err(viol("C10", "finality/result_changed", format!("{:?} became {:?} after {:?}", r, now, act)));
                }
                if accepted {
                    return Err(viol("C10", &format!("finality/{}_accepted_after_result", kind), format!("{:?} after {:?}", act, r)));
                }
            }
        }
        if self.srv.final_result.is_none() {
            self.srv.final_result = self.srv.game.as_ref().unwrap().result();
        }
        Ok(Ok(accepted))
    }

    fn c02_reach(&mut self, p: &Pos, m: Mv) {
        if p.is_ep(m) {
            self.stats.cnt("reach.ep_capture_played");
        }
        if p.is_castle(m) {
            self.stats.cnt("reach.castling_played");
        }
        if m.promo.is_some() {
            self.stats.cnt("reach.promotion_played");
        }
        if p.is_double_push(m) {
            self.stats.cnt("reach.double_push_played");
        }
        if [0u8, 7, 56, 63].contains(&m.to) && matches!(p.sq[m.to as usize], Some((Kind::R, _))) {
            self.stats.cnt("reach.rook_captured_at_home");
        }
    }

    fn claim_sig(&self, gm: &GameModel, got: bool, what: &str) -> String {
        let fifty = gm.clock >= 100;
        let three = gm.occurrences(false) >= 3;
        if !gm.open() {
            return format!("{}/claim_on_finished_game", what);
        }
        if !got {
            if fifty && !three {
                if gm.rights_changed_in_window {
                    "fifty_move/expected_true_got_false/castle_rights_changed_inside_window".into()
                } else {
                    "fifty_move/expected_true_got_false/other".into()
                }
            } else if three && !fifty {
                "threefold/expected_true_got_false".into()
            } else {
                "claim/expected_true_got_false/both_rules".into()
            }
        } else if gm.clock >= 90 {
            "fifty_move/expected_false_got_true".into()
        } else {
            format!("threefold/expected_false_got_true/occurrences_{}", gm.occurrences(false).min(4))
        }
    }

    fn c11_eval(&mut self, gm: &GameModel) {
        let occ = gm.occurrences(false).min(4) as u64;
        let bucket = match gm.clock {
            0..=89 => 0u64,
            90..=98 => 1,
            99 => 2,
            100 => 3,
            101 => 4,
            _ => 5,
        };
        let mut f = Fnv::new();
        f.bytes(&gm.pos.key_beside());
        f.u64(occ * 16 + bucket * 2 + gm.rights_changed_in_window as u64);
        self.eval(f.0, occ >= 2 || gm.clock >= 90);
        match gm.clock {
            99 => self.stats.cnt("reach.claim_at_clock_99"),
            100 => self.stats.cnt("reach.claim_at_clock_100"),
            101 => self.stats.cnt("reach.claim_at_clock_101"),
            _ => {}
        }
        if gm.clock >= 100 && gm.rights_changed_in_window {
            self.stats.cnt("reach.claim_clock>=100_rights_changed_in_window");
        }
        if occ >= 3 {
            self.stats.cnt("reach.claim_at_threefold");
        }
        if occ == 2 {
            self.stats.cnt("reach.claim_at_twofold");
        }
        if !gm.open() {
            self.stats.cnt("reach.claim_on_finished_game");
        }
    }

    /// Game's own view (actions / current_position / side_to_move / result) against the model.
    fn check_game_view(&mut self) -> Result<(), Violation> {
        let game = self.srv.game.as_ref().unwrap();
        let gm = self.srv.model.as_ref().unwrap();
        let c10 = self.on(10);
        if c10 {
            let log: Vec<Act> = game.actions().iter().map(act_from_lib).collect();
            if log != gm.log {
                return Err(viol(
                    "C10",
                    "view/actions_differ_from_accepted_sequence",
                    format!("library tail {:?}, accepted tail {:?}", tail(&log), tail(&gm.log)),
                ));
            }
            let cp = game.current_position();
            let o = observe(&cp);
            if let Err(e) = same_core(&o, &gm.pos) {
                return Err(viol("C10", "view/current_position_differs", e));
            }
            let mut fold = self.srv.start_board.unwrap();
            for a in gm.log.iter() {
                if let Act::Move(m) = a {
                    fold = fold.make_move_new(lib_mv(*m));
                }
            }
            if fold != cp {
                return Err(viol("C10", "view/current_position_not_fold_of_accepted_moves", format!("{} vs {}", cp, fold)));
            }
            if col_from_lib(game.side_to_move()) != gm.pos.stm {
                return Err(viol(
                    "C10",
                    "view/side_to_move",
                    format!("Game::side_to_move() {:?}, model {:?} in {}", game.side_to_move(), gm.pos.stm, gm.pos.fen()),
                ));
            }
        }
        let got = guard(|| game.result()).map_err(|e| {
            viol(if c10 { "C10" } else { "C04" }, "result/panic", format!("{} in {}", e, gm.pos.fen()))
        })?;
        let got = got.map(outcome_from_lib);
        let want = gm.result();
        if got != want {
            let by_position = matches!(want, Some(Outcome::WhiteCheckmates | Outcome::BlackCheckmates | Outcome::Stalemate))
                || matches!(got, Some(Outcome::WhiteCheckmates | Outcome::BlackCheckmates | Outcome::Stalemate));
            let d = format!("Game::result() {:?}, expected {:?}; log tail {:?} in {}", got, want, tail(&gm.log), gm.pos.fen());
            if c10 {
                return Err(viol("C10", &format!("result/{:?}_reported_as_{:?}", want, got), d));
            }
            if self.on(4) && by_position {
                return Err(viol("C04", &format!("game_result/{:?}_reported_as_{:?}", want, got), d));
            }
        }
        Ok(())
    }

    /// Mirror shadows: the colour-flipped (and file-flipped) game plays the flipped move.
    fn shadow_step(&mut self, mv: Mv) -> Result<(), Violation> {
        if !self.on(17) {
            return Ok(());
        }
        let cp = self.srv.game.as_ref().unwrap().current_position();
        if let Some(sh) = self.srv.shadow_colour.as_mut() {
            let ok = sh.make_move(lib_mv(mirror_mv_colour(mv)));
            if !ok {
                return Err(viol("C17", "colour/shadow_refused_mirrored_move", format!("{} mirrored refused", mv.uci())));
            }
            match mirror_board(&cp, true) {
                Ok(m) => {
                    if m != sh.current_position() {
                        return Err(viol(
                            "C17",
                            "colour/shadow_diverged",
                            format!("mirror of {} is {} but shadow holds {}", cp, m, sh.current_position()),
                        ));
                    }
                }
                Err(e) => return Err(viol("C17", "colour/mirror_rejected", format!("{}: {:?}", cp, e))),
            }
            self.stats.cnt("reach.shadow_colour_steps");
        }
        if let Some(sh) = self.srv.shadow_file.as_mut() {
            let ok = sh.make_move(lib_mv(mirror_mv_file(mv)));
            if !ok {
                return Err(viol("C17", "file/shadow_refused_mirrored_move", format!("{} mirrored refused", mv.uci())));
            }
            match mirror_board(&cp, false) {
                Ok(m) => {
                    if m != sh.current_position() {
                        return Err(viol("C17", "file/shadow_diverged", format!("{} vs {}", m, sh.current_position())));
                    }
                }
                Err(e) => return Err(viol("C17", "file/mirror_rejected", format!("{}: {:?}", cp, e))),
            }
            self.stats.cnt("reach.shadow_file_steps");
        }
        Ok(())
    }

    // ------------------------------------------------------------------------------ recovery

    fn restart_server(&mut self) -> Result<Flow, Violation> {
        if self.srv.up || self.srv.model.is_none() {
            return Ok(Flow::Go);
        }
        self.srv.epoch += 1;
        self.srv.torn_tail = None; // a torn tail is unparsable by construction (no terminator): dropped
        let gm_full = self.srv.model.as_ref().unwrap().clone();
        // START record
        let start = String::from_utf8_lossy(&self.srv.journal[0]).into_owned();
        let sf: Vec<&str> = start.splitn(2, ' ').collect();
        let mut usable = sf.len() == 2 && sf[0] == "START";
        let mut game: Option<Game> = None;
        if usable {
            let body = sf[1];
            match body.rfind(' ') {
                Some(i) => {
                    let fen = &body[..i];
                    let h = u64::from_str_radix(&body[i + 1..], 16).ok();
                    if self.on(7) {
                        // the START record comes back from disk (possibly rotted): full validation surface
                        self.validate_text(fen)?;
                    }
                    match guard(|| Game::from_str(fen)) {
                        Ok(Ok(g)) => {
                            let b = g.current_position();
                            if Some(b.get_hash()) != h {
                                usable = false;
                            } else {
                                if b != self.srv.start_board.unwrap() && self.on(9) {
                                    return Err(viol(
                                        "C09",
                                        "undetected_corruption/journal_start",
                                        format!("START record {:?} parses to a different position with the same hash", start),
                                    ));
                                }
                                game = Some(g);
                            }
                        }
                        Ok(Err(_)) => usable = false,
                        Err(p) => {
                            if self.on(7) {
                                return Err(viol("C07", "totality/panic/from_str", format!("{:?}: {}", fen, p)));
                            }
                            usable = false;
                        }
                    }
                }
                None => usable = false,
            }
        }
        if !usable || game.is_none() {
            self.stats.cnt("recovery.journal_unusable");
            // the deployment is dead; nothing further can be asserted about the server
            self.srv.model = None;
            self.srv.game = None;
            return Ok(Flow::ForeignDivergence("journal START record unusable after bit rot".into()));
        }
        let mut game = game.unwrap();
        let mut kept = 0usize;
        let recs: Vec<Vec<u8>> = self.srv.journal[1..].to_vec();
        for (i, raw) in recs.iter().enumerate() {
            let line = match String::from_utf8(raw.clone()) {
                Ok(l) => l,
                Err(_) => break,
            };
            let f: Vec<&str> = line.split(' ').collect();
            if f.len() != 4 || f[0] != "ACT" || f[1].parse::<usize>().ok() != Some(i + 1) {
                break;
            }
            let h = match u64::from_str_radix(f[3], 16) {
                Ok(h) if f[3].len() == 16 => h,
                _ => break,
            };
            if self.on(13) && f[2].len() >= 4 && !f[2].contains(':') && f[2] != "accept" && f[2] != "declare" {
                // a (possibly rotted) move text coming back from disk: totality and prefix rule
                self.decode_uci_op(f[2])?;
                self.stats.cnt("reach.journal_move_text_decoded");
            }
            let act = match parse_act_text(f[2]) {
                Some(a) => a,
                None => break,
            };
            if i >= gm_full.log.len() {
                break;
            }
            let intact = *raw == format!("ACT {} {} {:016x}", i + 1, act_text(gm_full.log[i]), h).into_bytes()
                && act == gm_full.log[i];
            // verify the fingerprint BEFORE applying (Game has no undo)
            let cur = game.current_position();
            let predicted = match act {
                Act::Move(m) => {
                    if !cur.legal(lib_mv(m)) {
                        if intact && self.on(10) {
                            return Err(viol(
                                "C10",
                                "recovery/replayed_move_not_legal",
                                format!("record {} {:?} not legal in {}", i + 1, line, cur),
                            ));
                        }
                        break;
                    }
                    cur.make_move_new(lib_mv(m)).get_hash()
                }
                _ => cur.get_hash(),
            };
            if predicted != h {
                if intact && self.on(8) {
                    return Err(viol(
                        "C08",
                        "hash/recovery_replay_differs_from_recorded",
                        format!("record {:?}: replay gives {:016x}", line, predicted),
                    ));
                }
                break;
            }
            if act != gm_full.log[i] {
                // a rotted record that still passes the fingerprint: the hash failed to separate
                if self.on(9) {
                    return Err(viol(
                        "C09",
                        "undetected_corruption/journal_record",
                        format!("record {:?} decodes to {:?}, original {:?}, same fingerprint", line, act, gm_full.log[i]),
                    ));
                }
                break;
            }
            let ok = match act {
                Act::Move(m) => game.make_move(lib_mv(m)),
                Act::Offer(c) => game.offer_draw(lib_col(c)),
                Act::Accept => game.accept_draw(),
                Act::Resign(c) => game.resign(lib_col(c)),
                Act::Declare => game.declare_draw(),
            };
            if !ok {
                if self.on(10) || (self.on(11) && act == Act::Declare) {
                    return Err(viol(
                        if act == Act::Declare && !self.on(10) { "C11" } else { "C10" },
                        "recovery/replayed_record_refused",
                        format!("record {} {:?} was accepted before the crash and is refused on replay", i + 1, line),
                    ));
                }
                break;
            }
            kept += 1;
        }
        self.srv.journal.truncate(1 + kept);
        if kept < gm_full.log.len() {
            self.stats.cnt("recovery.history_shortened");
        }
        let gm = gm_full.truncated(kept);
        self.srv.final_result = None;
        self.srv.model = Some(gm.clone());
        self.srv.game = Some(game);
        self.srv.up = true;
        self.stats.cnt("recovery.done");
        // rebuild mirror shadows from the start
        if self.on(17) {
            let sb = self.srv.start_board.unwrap();
            self.srv.shadow_colour = mirror_board(&sb, true).ok().map(Game::new_with_board);
            self.srv.shadow_file = if gm.start.castle == [false; 4] {
                mirror_board(&sb, false).ok().map(Game::new_with_board)
            } else {
                None
            };
            for a in gm.log.iter() {
                if let Act::Move(m) = a {
                    if let Some(s) = self.srv.shadow_colour.as_mut() {
                        s.make_move(lib_mv(mirror_mv_colour(*m)));
                    }
                    if let Some(s) = self.srv.shadow_file.as_mut() {
                        s.make_move(lib_mv(mirror_mv_file(*m)));
                    }
                }
            }
        }
        // recovery oracle: the rebuilt game is observably the model truncated to the durable prefix
        let b = self.srv.game.as_ref().unwrap().current_position();
        if self.on(10) || self.on(4) {
            self.check_game_view()?;
        }
        self.monitor_position(&b, &gm.pos, "recovery", None)?;
        if self.on(5) {
            // rights / material along the durable history (a right that "comes back" through text would show)
            let mut cur = self.srv.start_board.unwrap();
            for a in gm.log.iter() {
                if let Act::Move(m) = a {
                    let nxt = cur.make_move_new(lib_mv(*m));
                    c05_monotone(&cur, &nxt)?;
                    cur = nxt;
                }
            }
        }
        if self.on(11) {
            self.probe(&Probe::CanClaim)?;
        }
        self.srv.final_result = self.srv.game.as_ref().unwrap().result();
        Ok(Flow::Go)
    }

    // ------------------------------------------------------------------------------ replicas

    fn replica_mut(&mut self, c: Option<usize>) -> &mut Replica {
        match c {
            Some(i) => &mut self.cl[i],
            None => &mut self.spec,
        }
    }

    fn request_snapshot(&mut self, c: Option<usize>) {
        let from = match c {
            Some(i) => Node::Client(i),
            None => Node::Spectator,
        };
        let (epoch, seq) = {
            let r = self.replica_mut(c);
            (r.epoch, r.seq)
        };
        let id = self.new_msg_id();
        self.emit(Msg {
            id,
            from,
            to: Node::Server,
            kind: MKind::Act(CAct::SnapReq),
            epoch,
            seq,
            bytes: vec![],
            orig: vec![],
            fp: 0,
            over: false,
            orig_board: None,
            orig_pos: None,
            orig_mv: None,
        });
    }

    fn replica_receive(&mut self, c: Option<usize>, m: Msg) -> Result<Flow, Violation> {
        if !self.replica_mut(c).up {
            self.stats.cnt("net.lost_client_down");
            return Ok(Flow::Go);
        }
        let text = m.text();
        let corrupted = m.corrupted();
        match m.kind {
            MKind::Nack => {
                let r = self.replica_mut(c);
                if m.epoch != r.epoch || m.seq != r.seq {
                    self.request_snapshot(c);
                }
                Ok(Flow::Go)
            }
            MKind::Snapshot => {
                {
                    let r = self.replica_mut(c);
                    if m.epoch < r.epoch || (m.epoch == r.epoch && m.seq < r.seq) {
                        self.stats.cnt("net.stale_snapshot_ignored");
                        return Ok(Flow::Go);
                    }
                }
                let parsed = guard(|| Board::from_str(&text));
                let parsed = match parsed {
                    Err(p) => {
                        if self.on(7) {
                            return Err(viol("C07", "totality/panic/from_str", format!("{:?}: {}", text, p)));
                        }
                        self.stats.cnt("snap.panic_foreign");
                        return Ok(Flow::ForeignDivergence(format!("panic parsing snapshot {:?}", text)));
                    }
                    Ok(r) => r,
                };
                match parsed {
                    Err(e) => {
                        if !corrupted {
                            if self.on(6) {
                                return Err(viol("C06", "roundtrip/own_text_rejected", format!("{:?}: {:?}", text, e)));
                            }
                            return Ok(Flow::ForeignDivergence(format!("own snapshot FEN rejected {:?}", text)));
                        }
                        self.stats.cnt("snap.corruption_detected_by_parser");
                        self.request_snapshot(c);
                        Ok(Flow::Go)
                    }
                    Ok(b) => {
                        let ob = m.orig_board.unwrap();
                        if b.get_hash() != m.fp {
                            if !corrupted {
                                if self.on(8) {
                                    return Err(viol(
                                        "C08",
                                        "hash/travelling_fingerprint_snapshot",
                                        format!(
                                            "server computed {:016x} incrementally, receiver computes {:016x} from {:?}",
                                            m.fp,
                                            b.get_hash(),
                                            text
                                        ),
                                    ));
                                }
                                return Ok(Flow::ForeignDivergence("snapshot fingerprint mismatch".into()));
                            }
                            self.stats.cnt("snap.corruption_detected_by_fingerprint");
                            self.request_snapshot(c);
                            return Ok(Flow::Go);
                        }
                        if corrupted && observe(&b) != observe(&ob) {
                            if self.on(9) {
                                return Err(viol(
                                    "C09",
                                    "undetected_corruption/snapshot",
                                    format!("corrupted snapshot {:?} is a different position than {} with the same hash", text, ob),
                                ));
                            }
                            return Ok(Flow::ForeignDivergence("undetected snapshot corruption".into()));
                        }
                        if corrupted {
                            self.stats.cnt("snap.corruption_harmless");
                        }
                        let pos = m.orig_pos.clone().unwrap();
                        if self.on(3) && !corrupted && b != ob {
                            return Err(viol(
                                "C03",
                                "replica/snapshot_install_not_equal_to_sender",
                                format!("Board::from_str({:?}) != the board that rendered it", text),
                            ));
                        }
                        {
                            let r = self.replica_mut(c);
                            r.board = Some(b);
                            r.pos = Some(pos.clone());
                            r.epoch = m.epoch;
                            r.seq = m.seq;
                            r.over = m.over;
                            r.path = "snapshot";
                        }
                        self.stats.cnt("reach.snapshot_installed");
                        if let Some(i) = c {
                            self.eng[i].reset(b, pos.clone());
                        }
                        self.monitor_position(&b, &pos, "snapshot", None)?;
                        self.replica_divergence()?;
                        Ok(Flow::Go)
                    }
                }
            }
            MKind::Update => {
                let (epoch, seq, has_board) = {
                    let r = self.replica_mut(c);
                    (r.epoch, r.seq, r.board.is_some())
                };
                if m.epoch < epoch || (m.epoch == epoch && m.seq <= seq) {
                    self.stats.cnt("net.duplicate_or_old_update_ignored");
                    return Ok(Flow::Go);
                }
                if !has_board || m.epoch > epoch || m.seq != seq + 1 {
                    self.stats.cnt("net.gap_detected");
                    self.request_snapshot(c);
                    return Ok(Flow::Go);
                }
                let act = parse_act_text(&text);
                let act = match act {
                    Some(a) => a,
                    None => {
                        if !corrupted {
                            if self.on(13) {
                                return Err(viol("C13", "roundtrip/own_text_rejected", format!("update text {:?}", text)));
                            }
                            return Ok(Flow::ForeignDivergence(format!("own update text rejected {:?}", text)));
                        }
                        self.stats.cnt("upd.corruption_detected_by_parser");
                        self.request_snapshot(c);
                        return Ok(Flow::Go);
                    }
                };
                let (rb, rp) = {
                    let r = self.replica_mut(c);
                    (r.board.unwrap(), r.pos.clone().unwrap())
                };
                match act {
                    Act::Move(mv) => {
                        if !rb.legal(lib_mv(mv)) {
                            if !corrupted {
                                // the server accepted it in the same position: only possible if replicas diverged
                                return Ok(Flow::ForeignDivergence("update move illegal on replica".into()));
                            }
                            self.stats.cnt("upd.corruption_detected_by_legality");
                            self.request_snapshot(c);
                            return Ok(Flow::Go);
                        }
                        let dirty = if self.dirty_pool.is_empty() { rb } else { self.dirty_pool[(self.cur_n as usize + 1) % self.dirty_pool.len()] };
                        let mut nb = dirty;
                        rb.make_move(lib_mv(mv), &mut nb);
                        if nb.get_hash() != m.fp {
                            if !corrupted {
                                if self.on(8) {
                                    return Err(viol(
                                        "C08",
                                        "hash/travelling_fingerprint_update",
                                        format!(
                                            "after {} from {}: sender {:016x}, receiver {:016x}",
                                            mv.uci(),
                                            rp.fen(),
                                            m.fp,
                                            nb.get_hash()
                                        ),
                                    ));
                                }
                                // the receiver's own result differs from the sender's: before the run is given up as
                                // another property's business, the armed oracles look at the receiver's board
                                let np = rp.make(mv);
                                if self.on(2) {
                                    let n1 = rb.make_move_new(lib_mv(mv));
                                    if n1 != nb || !boards_identical(&n1, &nb) {
                                        return Err(viol(
                                            "C02",
                                            &format!("entry_points_differ/{}", move_class(&rp, mv)),
                                            format!("replica: make_move into used buffer != make_move_new for {} in {}", mv.uci(), rp.fen()),
                                        ));
                                    }
                                }
                                self.monitor_position(&nb, &np, "replica_incremental", Some((&rb, &rp, mv)))?;
                                return Ok(Flow::ForeignDivergence("update fingerprint mismatch".into()));
                            }
                            self.stats.cnt("upd.corruption_detected_by_fingerprint");
                            self.request_snapshot(c);
                            return Ok(Flow::Go);
                        }
                        if corrupted && Some(mv) != m.orig_mv {
                            if self.on(9) {
                                return Err(viol(
                                    "C09",
                                    "undetected_corruption/update",
                                    format!(
                                        "corrupted update {:?} (original {:?}) yields a different position with the same hash from {}",
                                        text,
                                        m.orig_mv.map(|x| x.uci()),
                                        rp.fen()
                                    ),
                                ));
                            }
                            return Ok(Flow::ForeignDivergence("undetected update corruption".into()));
                        }
                        let np = rp.make(mv);
                        {
                            let r = self.replica_mut(c);
                            r.board = Some(nb);
                            r.pos = Some(np.clone());
                            r.seq = m.seq;
                            r.over = m.over;
                            r.path = "replica_incremental";
                        }
                        if let Some(i) = c {
                            self.eng[i].reset(nb, np.clone());
                        }
                        {
                            // the replica was advanced through the in-place entry point into a used buffer: every
                            // armed per-position oracle looks at it too
                            if self.on(2) {
                                let n1 = rb.make_move_new(lib_mv(mv));
                                if n1 != nb || !boards_identical(&n1, &nb) {
                                    return Err(viol(
                                        "C02",
                                        &format!("entry_points_differ/{}", move_class(&rp, mv)),
                                        format!("replica: make_move into used buffer != make_move_new for {} in {}", mv.uci(), rp.fen()),
                                    ));
                                }
                            }
                            self.monitor_position(&nb, &np, "replica_incremental", Some((&rb, &rp, mv)))?;
                        }
                        self.replica_divergence()?;
                    }
                    _ => {
                        let r = self.replica_mut(c);
                        r.seq = m.seq;
                        r.over = m.over;
                    }
                }
                Ok(Flow::Go)
            }
            MKind::Act(_) => Ok(Flow::Go),
        }
    }

    /// The replica divergence invariant: any two nodes whose model positions are equal hold == boards
    /// with equal hashes, however they got there.
    fn replica_divergence(&mut self) -> Result<(), Violation> {
        if !(self.on(3) || self.on(8)) {
            return Ok(());
        }
        let mut nodes: Vec<(&'static str, Board, Pos, &'static str)> = vec![];
        if let (Some(g), Some(gm)) = (self.srv.game.as_ref(), self.srv.model.as_ref()) {
            if self.srv.up {
                nodes.push(("server", g.current_position(), gm.pos.clone(), "incremental"));
            }
        }
        for (i, name) in [(0usize, "white"), (1, "black")] {
            if let (Some(b), Some(p)) = (self.cl[i].board, self.cl[i].pos.clone()) {
                nodes.push((name, b, p, self.cl[i].path));
            }
        }
        if let (Some(b), Some(p)) = (self.spec.board, self.spec.pos.clone()) {
            nodes.push(("spectator", b, p, self.spec.path));
        }
        for i in 0..nodes.len() {
            for j in (i + 1)..nodes.len() {
                if nodes[i].2.key_beside() == nodes[j].2.key_beside() {
                    self.stats.cnt("reach.replica_pairs_compared");
                    if nodes[i].3 != nodes[j].3 {
                        self.stats.cnt("reach.replica_pairs_different_paths");
                    }
                    if self.on(8) && nodes[i].1.get_hash() != nodes[j].1.get_hash() {
                        return Err(viol(
                            "C08",
                            &format!("hash/replicas_differ/{}_vs_{}", nodes[i].3, nodes[j].3),
                            format!("{} and {} hold {} with hashes {:016x} / {:016x}", nodes[i].0, nodes[j].0, nodes[i].2.fen(), nodes[i].1.get_hash(), nodes[j].1.get_hash()),
                        ));
                    }
                    if self.on(3) && (nodes[i].1 != nodes[j].1 || !boards_identical(&nodes[i].1, &nodes[j].1)) {
                        return Err(viol(
                            "C03",
                            &format!("replica/divergence/{}_vs_{}", nodes[i].3, nodes[j].3),
                            format!("{} and {} hold the same position {} but the boards differ", nodes[i].0, nodes[j].0, nodes[i].2.fen()),
                        ));
                    }
                }
            }
        }
        Ok(())
    }

    // ------------------------------------------------------------------------------ probes

    pub fn probe(&mut self, p: &Probe) -> Result<Flow, Violation> {
        if !self.srv.up || self.srv.game.is_none() {
            return Ok(Flow::Go);
        }
        let board = self.srv.game.as_ref().unwrap().current_position();
        let gm = self.srv.model.as_ref().unwrap().clone();
        match p {
            Probe::CanClaim => {
                if self.on(11) {
                    let got = guard(|| self.srv.game.as_ref().unwrap().can_declare_draw())
                        .map_err(|e| viol("C11", "can_declare_draw/panic", format!("{} in {}", e, gm.pos.fen())))?;
                    let (a, b) = gm.claimable();
                    if a != b {
                        self.stats.cnt("na.ambiguous_ep_not_asserted");
                    } else if got != a {
                        let sig = self.claim_sig(&gm, got, "query");
                        return Err(viol(
                            "C11",
                            &sig,
                            format!(
                                "can_declare_draw() = {} but expected {} (occurrences {}, half-move clock {}, open {}) in {}",
                                got,
                                a,
                                gm.occurrences(false),
                                gm.clock,
                                gm.open(),
                                gm.pos.fen()
                            ),
                        ));
                    }
                    self.c11_eval(&gm);
                }
            }
            Probe::Sweep => {
                if self.on(1) {
                    guard(|| c01_sweep(&board, &gm.pos))
                        .map_err(|e| viol("C01", "legal_query/panic", format!("{} in {}", e, gm.pos.fen())))??;
                    self.stats.cnt("reach.full_sweeps");
                    self.stats.evals += 20480;
                }
            }
            Probe::Legal(m) => {
                if self.on(1) {
                    guard(|| c01_legal_query(&board, &gm.pos, *m))
                        .map_err(|e| viol("C01", "legal_query/panic", format!("{} in {}", e, gm.pos.fen())))??;
                    self.eval(0, false);
                }
            }
            Probe::SanAll => {
                if self.on(12) {
                    self.san_all(&board, &gm.pos)?;
                }
            }
            Probe::Position => {
                self.monitor_position(&board, &gm.pos, "incremental", None)?;
            }
        }
        Ok(Flow::Go)
    }
}

pub fn act_kind(a: Act) -> u8 {
    match a {
        Act::Move(_) => 0,
        Act::Offer(Col::W) => 1,
        Act::Offer(Col::B) => 2,
        Act::Accept => 3,
        Act::Declare => 4,
        Act::Resign(Col::W) => 5,
        Act::Resign(Col::B) => 6,
    }
}
pub fn tail(l: &[Act]) -> Vec<Act> {
    l.iter().rev().take(4).rev().cloned().collect()
}

#[allow(dead_code)]
fn _unused(_: MoveGen) {}
