//! Conversions between the reference model's plain types and the library's types, and the
//! "observation" of a library board through its public per-square queries only.

use crate::model::*;
use chess::{Board, BoardBuilder, CastleRights, ChessMove, Color, File, Piece, Rank, Square, ALL_SQUARES};
use std::convert::TryFrom;

pub fn lib_sq(s: Sq) -> Square {
    Square::make_square(Rank::from_index((s >> 3) as usize), File::from_index((s & 7) as usize))
}
pub fn sq_from_lib(s: Square) -> Sq {
    (s.get_rank().to_index() * 8 + s.get_file().to_index()) as Sq
}
pub fn lib_kind(k: Kind) -> Piece {
    match k {
        Kind::P => Piece::Pawn,
        Kind::N => Piece::Knight,
        Kind::B => Piece::Bishop,
        Kind::R => Piece::Rook,
        Kind::Q => Piece::Queen,
        Kind::K => Piece::King,
    }
}
pub fn kind_from_lib(p: Piece) -> Kind {
    match p {
        Piece::Pawn => Kind::P,
        Piece::Knight => Kind::N,
        Piece::Bishop => Kind::B,
        Piece::Rook => Kind::R,
        Piece::Queen => Kind::Q,
        Piece::King => Kind::K,
    }
}
pub fn lib_col(c: Col) -> Color {
    match c {
        Col::W => Color::White,
        Col::B => Color::Black,
    }
}
pub fn col_from_lib(c: Color) -> Col {
    match c {
        Color::White => Col::W,
        Color::Black => Col::B,
    }
}
pub fn lib_mv(m: Mv) -> ChessMove {
    ChessMove::new(lib_sq(m.from), lib_sq(m.to), m.promo.map(lib_kind))
}
pub fn mv_from_lib(m: ChessMove) -> Mv {
    Mv::new(sq_from_lib(m.get_source()), sq_from_lib(m.get_dest()), m.get_promotion().map(kind_from_lib))
}
pub fn lib_rights(k: bool, q: bool) -> CastleRights {
    match (k, q) {
        (false, false) => CastleRights::NoRights,
        (true, false) => CastleRights::KingSide,
        (false, true) => CastleRights::QueenSide,
        (true, true) => CastleRights::Both,
    }
}

/// What a library board looks like through piece_on / color_on / side_to_move / castle_rights /
/// en_passant — the observables the properties speak about.
#[derive(Clone, PartialEq, Eq, Debug)]
pub struct Observed {
    pub sq: [Option<(Kind, Col)>; 64],
    pub stm: Col,
    pub castle: [bool; 4],
    /// the library's en_passant(): square of the pawn that just double-pushed
    pub ep_pawn: Option<Sq>,
}

pub fn observe(b: &Board) -> Observed {
    let mut sq = [None; 64];
    for s in ALL_SQUARES.iter() {
        let i = sq_from_lib(*s) as usize;
        match (b.piece_on(*s), b.color_on(*s)) {
            (Some(p), Some(c)) => sq[i] = Some((kind_from_lib(p), col_from_lib(c))),
            (None, None) => {}
            // an inconsistent answer is reported by the occupancy oracle; here record what piece_on says
            (Some(p), None) => sq[i] = Some((kind_from_lib(p), Col::W)),
            (None, Some(_)) => {}
        }
    }
    let w = b.castle_rights(Color::White);
    let k = b.castle_rights(Color::Black);
    Observed {
        sq,
        stm: col_from_lib(b.side_to_move()),
        castle: [w.has_kingside(), w.has_queenside(), k.has_kingside(), k.has_queenside()],
        ep_pawn: b.en_passant().map(sq_from_lib),
    }
}

/// Does the observed board show exactly the model position (placement, side, rights)?  En passant
/// is compared separately because the property allows two behaviours there.
pub fn same_core(o: &Observed, p: &Pos) -> Result<(), String> {
    for s in 0..64 {
        if o.sq[s] != p.sq[s] {
            return Err(format!("square {}: library {:?}, model {:?}", sq_name(s as u8), o.sq[s], p.sq[s]));
        }
    }
    if o.stm != p.stm {
        return Err(format!("side to move: library {:?}, model {:?}", o.stm, p.stm));
    }
    if o.castle != p.castle {
        return Err(format!("castling rights [K,Q,k,q]: library {:?}, model {:?}", o.castle, p.castle));
    }
    Ok(())
}

/// The library's en-passant observable against the model: Ok(asserted?) or Err(reason).
/// Rule (C02/C06): Some(sq) only directly after a double push to sq with an enemy pawn beside it;
/// always Some when an en-passant capture is legal; None when the last move was not a double push.
pub fn ep_consistent(o: &Observed, p: &Pos) -> Result<(), String> {
    match o.ep_pawn {
        Some(s) => {
            if p.ep_pawn_sq() != Some(s) {
                return Err(format!(
                    "library records en-passant pawn on {} but the model's last double push gives {:?}",
                    sq_name(s),
                    p.ep_pawn_sq().map(sq_name)
                ));
            }
            if !p.ep_pawn_beside() {
                return Err(format!("library records en-passant on {} with no enemy pawn beside it", sq_name(s)));
            }
            Ok(())
        }
        None => {
            if p.ep_capture_legal() {
                return Err("a legal en-passant capture exists but the library records no en-passant state".into());
            }
            Ok(())
        }
    }
}

/// Build the model position's BoardBuilder through the builder API (not through text).
pub fn builder_from_pos(p: &Pos) -> BoardBuilder {
    let mut b = BoardBuilder::new();
    for s in 0..64u8 {
        if let Some((k, c)) = p.sq[s as usize] {
            b.piece(lib_sq(s), lib_kind(k), lib_col(c));
        }
    }
    b.side_to_move(lib_col(p.stm));
    b.castle_rights(Color::White, lib_rights(p.castle[WK], p.castle[WQ]));
    b.castle_rights(Color::Black, lib_rights(p.castle[BK], p.castle[BQ]));
    b.en_passant(p.ep.map(|t| File::from_index((t & 7) as usize)));
    b
}

pub fn board_via_builder(p: &Pos) -> Result<Board, chess::Error> {
    Board::try_from(&builder_from_pos(p))
}

/// Model position read back from a library board's observables (en-passant target reconstructed
/// from the recorded pawn square).
pub fn pos_from_observed(o: &Observed) -> Pos {
    let mut p = Pos::empty();
    p.sq = o.sq;
    p.stm = o.stm;
    p.castle = o.castle;
    p.ep = o.ep_pawn.map(|s| if o.stm == Col::W { s + 8 } else { s - 8 });
    p
}
