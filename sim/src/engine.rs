//! Engine tasks: the "search routine" of C14 and the table user of C19. Each client hosts a few
//! interleaved tasks working on the client's replica; every chess operation is the real library,
//! every expectation comes from IterModel / TableModel below.

use crate::conv::*;
use crate::exec::*;
use crate::model::*;
use crate::ops::*;
use crate::oracle::*;
use crate::rng::Fnv;
use chess::{BitBoard, Board, CacheTable, MoveGen};
use std::cell::Cell;

pub struct IterModel {
    /// legal moves not yet yielded and not removed
    pub remaining: Vec<Mv>,
    /// moves that may or may not still be yielded (sibling promotions of a removed promotion)
    pub uncertain: Vec<Mv>,
    pub removed: Vec<Mv>,
    pub removed_dests: u64,
    pub mask: u64,
    pub yielded: usize,
    pub yielded_under_mask: usize,
    /// (reported len, yielded_under_mask at the probe) awaiting the retrospective check
    pub pending_len: Vec<(usize, usize)>,
    pub nexts_since_mask: usize,
    pub exhausted: bool,
    pub out_of_contract: bool,
    pub had_removal: bool,
    pub masks_set: usize,
}

pub struct GenPair {
    pub gen: MoveGen,
    pub model: IterModel,
}

pub struct Task {
    pub stack: Vec<(Board, Pos)>,
    pub gen: Option<GenPair>,
}

pub struct TableModel {
    pub size: u64,
    pub slots: Vec<(u64, Val)>,
}

pub struct EngineState {
    pub base: Option<(Board, Pos)>,
    pub tasks: Vec<Task>,
    pub table: Option<(CacheTable<Val>, TableModel)>,
    pub wide: Option<CacheTable<WideVal>>,
}

/// The stored value type. Like a real engine entry it compares by `depth` only (PartialEq / PartialOrd
/// are what `CacheTable` demands of its values), while the table must hand back exactly the value that
/// was written: the harness compares `depth` AND `stamp`.
#[derive(Copy, Clone, Debug)]
pub struct Val {
    pub depth: u8,
    pub stamp: u32,
}
impl PartialEq for Val {
    fn eq(&self, o: &Val) -> bool {
        // depth 255 plays the role of a NaN: not equal to anything, itself included
        self.depth == o.depth && self.depth != 255
    }
}
impl PartialOrd for Val {
    fn partial_cmp(&self, o: &Val) -> Option<std::cmp::Ordering> {
        if self.depth == 255 || o.depth == 255 {
            None
        } else {
            self.depth.partial_cmp(&o.depth)
        }
    }
}
fn ex(v: Val) -> (u8, u32) {
    (v.depth, v.stamp)
}
/// A second table runs in lock-step with the first and stores the same values as 32-byte entries (engines keep
/// moves, bounds and evaluations in their entries; the compiler lays such an entry out differently from a small one -
/// a payload whose size is a larger power of two than the key's is placed BEFORE the key).
#[derive(Copy, Clone, Debug)]
pub struct WideVal {
    pub w: [u64; 4],
}
impl WideVal {
    fn v(&self) -> Val {
        Val { depth: (self.w[3] >> 32) as u8, stamp: self.w[3] as u32 }
    }
}
impl PartialEq for WideVal {
    fn eq(&self, o: &WideVal) -> bool {
        self.v() == o.v()
    }
}
impl PartialOrd for WideVal {
    fn partial_cmp(&self, o: &WideVal) -> Option<std::cmp::Ordering> {
        self.v().partial_cmp(&o.v())
    }
}
fn pad_for(v: Val, key: u64) -> [u64; 3] {
    // the first word looks like a key of the same slot, so that a table comparing the wrong word is fooled
    let a = crate::rng::mix(&[v.stamp as u64, 0x51DE]);
    [key ^ ((v.stamp as u64 & 0xFF) << 32), a, a ^ key]
}
fn widen(v: Val, key: u64) -> WideVal {
    let p = pad_for(v, key);
    WideVal { w: [p[0], p[1], p[2], (v.depth as u64) << 32 | v.stamp as u64] }
}
/// What the wide table's answer says in terms of the narrow value: a damaged entry becomes a value nothing expects.
fn narrow(w: Option<WideVal>, key: u64) -> Option<Val> {
    w.map(|w| {
        let v = w.v();
        if w.w[0..3] == pad_for(v, key) || (w.w[0..3] == [0; 3] && ex(v) == ex(TABLE_DEFAULT)) {
            v
        } else {
            Val { depth: 254, stamp: 0xBAD0_0BAD }
        }
    })
}
pub const WIDE_DEFAULT: WideVal = WideVal { w: [0, 0, 0, (TABLE_DEFAULT.depth as u64) << 32 | TABLE_DEFAULT.stamp as u64] };
pub const TABLE_DEFAULT: Val = Val { depth: 0, stamp: 0xDEFA };

impl EngineState {
    pub fn new() -> EngineState {
        EngineState { base: None, tasks: vec![], table: None, wide: None }
    }
    /// The client's replica changed: every task restarts from it. The table survives (it is keyed by hash).
    pub fn reset(&mut self, b: Board, p: Pos) {
        self.base = Some((b, p));
        self.tasks.clear();
    }
    fn task(&mut self, t: usize) -> Option<&mut Task> {
        let base = self.base.clone()?;
        while self.tasks.len() <= t && self.tasks.len() < 4 {
            self.tasks.push(Task { stack: vec![base.clone()], gen: None });
        }
        self.tasks.get_mut(t)
    }
}

fn dest_in(m: Mv, mask: u64) -> bool {
    mask & (1u64 << m.to) != 0
}
fn lib_bb(mask: u64) -> BitBoard {
    BitBoard::new(mask)
}

impl Exec {
    pub fn engine_op(&mut self, c: usize, t: usize, e: &EOp) -> Result<Flow, Violation> {
        let c14 = self.on(14);
        let c19 = self.on(19);
        // table ops do not need a task
        match e {
            EOp::TableNew { size } => return self.table_new(c, *size),
            EOp::TableGet { key } => return self.table_get(c, *key),
            EOp::TableAdd { key, val } => return self.table_add(c, *key, *val),
            EOp::TableReplaceIf { key, pred, val } => return self.table_replace_if(c, *key, *pred, *val),
            _ => {}
        }
        let armed = self.armed;
        let on = move |p: usize| armed & (1 << p) != 0;
        let (top_b, top_p, depth) = match self.eng[c].task(t) {
            Some(task) => {
                let (b, p) = task.stack.last().unwrap().clone();
                (b, p, task.stack.len())
            }
            None => return Ok(Flow::Go),
        };
        // ops that call back into the whole executor are handled before the task is borrowed for long
        match e {
            EOp::Null => return self.engine_null(c, t, top_b, top_p, depth),
            EOp::Descend { mv, dirty } => return self.engine_descend(c, t, top_b, top_p, depth, *mv, *dirty),
            EOp::TableAddHere { alias } => return self.table_add(c, top_b.get_hash() ^ (*alias), 0),
            EOp::LibWalk { picks } => return self.lib_walk(top_b, picks),
            EOp::LibTree => return self.lib_tree(top_b),
            EOp::Edit { sq, kind } => return self.engine_edit(c, t, top_b, top_p, depth, *sq, *kind),
            EOp::Rights { code } => return self.engine_rights(c, t, top_b, top_p, depth, *code),
            EOp::TableGetHere { alias } => return self.table_get(c, top_b.get_hash() ^ (*alias)),
            _ => {}
        }
        let stats = &mut self.stats;
        let task = self.eng[c].task(t).unwrap();
        match e {
            EOp::Reset => {
                let base = task.stack[0].clone();
                task.stack = vec![base];
                task.gen = None;
            }
            EOp::Ascend => {
                if task.stack.len() > 1 {
                    task.stack.pop();
                    task.gen = None;
                }
            }
            EOp::NewGen => {
                let gen = match guard(|| MoveGen::new_legal(&top_b)) {
                    Ok(g) => g,
                    Err(p) => {
                        if c14 {
                            return Err(viol("C14", "new_legal/panic", format!("{} in {}", p, top_p.fen())));
                        }
                        return Ok(Flow::ForeignDivergence(format!("panic in new_legal: {}", p)));
                    }
                };
                task.gen = Some(GenPair {
                    gen,
                    model: IterModel {
                        remaining: top_p.legal_moves(),
                        uncertain: vec![],
                        removed: vec![],
                        removed_dests: 0,
                        mask: !0,
                        yielded: 0,
                        yielded_under_mask: 0,
                        pending_len: vec![],
                        nexts_since_mask: 0,
                        exhausted: false,
                        out_of_contract: false,
                        had_removal: false,
                        masks_set: 0,
                    },
                });
            }
            EOp::RemoveMove(mv) => {
                if let Some(g) = task.gen.as_mut() {
                    // removals are "beforehand": on a fresh generator or between passes (the current mask
                    // exhausted), never in the middle of a pass
                    if g.model.nexts_since_mask > 0 && !g.model.exhausted {
                        g.model.out_of_contract = true;
                    }
                    if g.model.yielded > 0 || g.model.masks_set > 0 {
                        stats.cnt("reach.removal_between_passes");
                    }
                    let ret = g.gen.remove_move(lib_mv(*mv));
                    let _ = ret; // observed, not asserted (the statement is silent)
                    g.model.had_removal = true;
                    let mut keep = vec![];
                    for m in g.model.remaining.drain(..) {
                        if m.from == mv.from && m.to == mv.to {
                            if m == *mv {
                                g.model.removed.push(m);
                            } else {
                                g.model.uncertain.push(m); // sibling promotion: either behaviour accepted
                            }
                        } else {
                            keep.push(m);
                        }
                    }
                    g.model.remaining = keep;
                    if top_p.is_ep(*mv) {
                        stats.cnt("reach.removed_en_passant_capture");
                    }
                    if mv.promo.is_some() {
                        stats.cnt("reach.removed_promotion");
                    }
                }
            }
            EOp::RemoveMask(bb) => {
                if let Some(g) = task.gen.as_mut() {
                    if g.model.nexts_since_mask > 0 && !g.model.exhausted {
                        g.model.out_of_contract = true;
                    }
                    if g.model.yielded > 0 || g.model.masks_set > 0 {
                        stats.cnt("reach.removal_between_passes");
                    }
                    g.gen.remove_mask(lib_bb(*bb));
                    g.model.had_removal = true;
                    g.model.removed_dests |= *bb;
                    let (gone, keep): (Vec<Mv>, Vec<Mv>) = g.model.remaining.drain(..).partition(|m| dest_in(*m, *bb));
                    g.model.removed.extend(gone);
                    g.model.remaining = keep;
                    let (gone, keep): (Vec<Mv>, Vec<Mv>) = g.model.uncertain.drain(..).partition(|m| dest_in(*m, *bb));
                    g.model.removed.extend(gone);
                    g.model.uncertain = keep;
                }
            }
            EOp::SetMask(bb) => {
                if let Some(g) = task.gen.as_mut() {
                    // a new mask is in contract on a fresh generator or after the previous mask was exhausted
                    if g.model.nexts_since_mask > 0 && !g.model.exhausted {
                        g.model.out_of_contract = true;
                        stats.cnt("na.mask_changed_mid_exhaustion");
                    }
                    g.gen.set_iterator_mask(lib_bb(*bb));
                    g.model.mask = *bb;
                    g.model.nexts_since_mask = 0;
                    g.model.yielded_under_mask = 0;
                    g.model.pending_len.clear();
                    g.model.exhausted = false;
                    g.model.masks_set += 1;
                }
            }
            EOp::Len => {
                if let Some(g) = task.gen.as_mut() {
                    let l = g.gen.len();
                    let sh = g.gen.size_hint();
                    if c14 && !g.model.out_of_contract {
                        stats.evals += 1;
                        if sh != (l, Some(l)) {
                            return Err(viol("C14", "size_hint/differs_from_len", format!("len {} size_hint {:?} in {}", l, sh, top_p.fen())));
                        }
                        let certain = g.model.remaining.iter().filter(|m| dest_in(**m, g.model.mask)).count();
                        let unc = g.model.uncertain.iter().filter(|m| dest_in(**m, g.model.mask)).count();
                        if unc == 0 {
                            if l != certain {
                                let when = if g.model.had_removal {
                                    "after_removal"
                                } else if g.model.yielded == 0 && g.model.masks_set == 0 {
                                    "fresh"
                                } else if g.model.yielded == 0 {
                                    "fresh_with_mask"
                                } else {
                                    "after_first_entry_exhausted_or_mid_promotion"
                                };
                                return Err(viol(
                                    "C14",
                                    &format!("len/not_remaining/{}", when),
                                    format!(
                                        "len() = {} but {} moves remain under mask {:016x} after {} yielded in {}",
                                        l, certain, g.model.mask, g.model.yielded, top_p.fen()
                                    ),
                                ));
                            }
                        } else {
                            if l < certain || l > certain + unc {
                                return Err(viol(
                                    "C14",
                                    "len/not_remaining/after_removal",
                                    format!("len() = {} outside [{}, {}] in {}", l, certain, certain + unc, top_p.fen()),
                                ));
                            }
                            g.model.pending_len.push((l, g.model.yielded_under_mask));
                        }
                        if g.model.yielded > 0 {
                            stats.cnt("reach.len_probe_mid_iteration");
                        }
                    }
                }
            }
            EOp::Next => {
                if let Some(g) = task.gen.as_mut() {
                    let r = match guard(|| g.gen.next()) {
                        Ok(r) => r,
                        Err(p) => {
                            if c14 {
                                return Err(viol("C14", "next/panic", format!("{} in {}", p, top_p.fen())));
                            }
                            return Ok(Flow::ForeignDivergence(format!("panic in next(): {}", p)));
                        }
                    };
                    g.model.nexts_since_mask += 1;
                    if c14 && !g.model.out_of_contract {
                        stats.evals += 1;
                        let mut f = Fnv::new();
                        f.bytes(&top_p.key_beside());
                        f.u64(g.model.had_removal as u64 * 2 + (g.model.masks_set.min(7) as u64) * 4);
                        let nt = g.model.masks_set >= 2
                            || g.model.had_removal
                            || top_p.legal_moves().iter().any(|m| m.promo.is_some() || top_p.is_ep(*m));
                        if nt {
                            stats.distinct.push(f.0);
                        }
                        match r {
                            Some(lm) => {
                                let m = mv_from_lib(lm);
                                if let Some(i) = g.model.remaining.iter().position(|x| *x == m) {
                                    if !dest_in(m, g.model.mask) {
                                        return Err(viol(
                                            "C14",
                                            "mask/yielded_outside_mask",
                                            format!("{} yielded under mask {:016x} in {}", m.uci(), g.model.mask, top_p.fen()),
                                        ));
                                    }
                                    g.model.remaining.remove(i);
                                } else if let Some(i) = g.model.uncertain.iter().position(|x| *x == m) {
                                    g.model.uncertain.remove(i);
                                    if !dest_in(m, g.model.mask) {
                                        return Err(viol("C14", "mask/yielded_outside_mask", format!("{} in {}", m.uci(), top_p.fen())));
                                    }
                                } else if g.model.removed.contains(&m) {
                                    let what = if top_p.is_ep(m) { "en_passant_entry_not_cleared" } else { "removed_move_yielded" };
                                    return Err(viol(
                                        "C14",
                                        &format!("removal/{}", what),
                                        format!("{} was removed beforehand and is yielded in {}", m.uci(), top_p.fen()),
                                    ));
                                } else if top_p.is_legal(m) {
                                    return Err(viol("C14", "yield/duplicate", format!("{} yielded twice in {}", m.uci(), top_p.fen())));
                                } else {
                                    return Err(viol("C14", "yield/illegal_move", format!("{} yielded in {}", m.uci(), top_p.fen())));
                                }
                                g.model.yielded += 1;
                                g.model.yielded_under_mask += 1;
                            }
                            None => {
                                let left: Vec<Mv> =
                                    g.model.remaining.iter().filter(|m| dest_in(**m, g.model.mask)).cloned().collect();
                                if !left.is_empty() {
                                    let what = if g.model.had_removal {
                                        "removal/iteration_stops_at_emptied_entry"
                                    } else if g.model.masks_set >= 1 {
                                        "mask/remainder_not_yielded"
                                    } else {
                                        "yield/missing"
                                    };
                                    return Err(viol(
                                        "C14",
                                        what,
                                        format!(
                                            "iteration ended with {} eligible moves not yielded (e.g. {}) under mask {:016x} in {}",
                                            left.len(),
                                            left[0].uci(),
                                            g.model.mask,
                                            top_p.fen()
                                        ),
                                    ));
                                }
                                // retrospective len check
                                for (rep, at) in g.model.pending_len.drain(..) {
                                    if rep != g.model.yielded_under_mask - at {
                                        return Err(viol(
                                            "C14",
                                            "len/not_remaining/after_removal",
                                            format!("len() reported {} but {} were yielded afterwards in {}", rep, g.model.yielded_under_mask - at, top_p.fen()),
                                        ));
                                    }
                                }
                                g.model.exhausted = true;
                                stats.cnt("reach.mask_exhausted");
                                if g.model.remaining.is_empty() && g.model.uncertain.is_empty() {
                                    stats.cnt("reach.generator_fully_exhausted");
                                }
                            }
                        }
                    }
                }
            }
            _ => {}
        }
        let _ = c19;
        Ok(Flow::Go)
    }


    fn engine_null(&mut self, c: usize, t: usize, top_b: Board, top_p: Pos, depth: usize) -> Result<Flow, Violation> {
        if !(self.on(18) || self.on(3) || self.on(8)) {
            return Ok(Flow::Go);
        }
        let res = top_b.null_move();
        if self.on(18) {
            c18_null(&top_b, &top_p)?;
            let mut f = Fnv::new();
            f.bytes(&top_p.key_beside());
            let nt = top_p.in_check() || top_p.ep_pawn_beside() || depth > 1;
            self.stats.evals += 1;
            if nt {
                self.stats.distinct.push(f.0);
            }
            if depth > 1 {
                self.stats.cnt("reach.null_after_engine_moves");
            }
        }
        if let Some(nb) = res {
            let mut q = top_p.clone();
            q.stm = top_p.stm.other();
            q.ep = None;
            if depth < 8 {
                let task = self.eng[c].task(t).unwrap();
                task.stack.push((nb, q.clone()));
                task.gen = None;
            }
            self.stats.cnt("reach.null_move_made");
            self.setter_sibling(&top_b, &top_p, &nb, &q)?;
            self.monitor_position(&nb, &q, "null_move", None)?;
        }
        Ok(Flow::Go)
    }

    fn engine_descend(&mut self, c: usize, t: usize, top_b: Board, top_p: Pos, depth: usize, mv: Mv, dirty: u32) -> Result<Flow, Violation> {
        if !top_p.is_legal(mv) || depth >= 8 {
            return Ok(Flow::Go);
        }
        let dirty_b = if self.dirty_pool.is_empty() { top_b } else { self.dirty_pool[(dirty as usize) % self.dirty_pool.len()] };
        let np = top_p.make(mv);
        let nb = if self.on(2) {
            let r = guard(|| c02_successor(&top_b, &top_p, mv, &dirty_b))
                .map_err(|e| viol("C02", "successor/panic", format!("{} on {} in {}", e, mv.uci(), top_p.fen())))??;
            self.stats.evals += 1;
            let mut f = Fnv::new();
            f.bytes(&top_p.key_beside());
            f.str(&mv.uci());
            if top_p.is_capture(mv) || top_p.is_castle(mv) || mv.promo.is_some() || top_p.is_double_push(mv) || top_p.castle != np.castle {
                self.stats.distinct.push(f.0);
            }
            r
        } else {
            let mut nb = dirty_b;
            top_b.make_move(lib_mv(mv), &mut nb);
            nb
        };
        self.stats.cnt("fault.E-DIRTY");
        {
            let task = self.eng[c].task(t).unwrap();
            task.stack.push((nb, np.clone()));
            task.gen = None;
        }
        self.monitor_position(&nb, &np, "engine", Some((&top_b, &top_p, mv)))?;
        Ok(Flow::Go)
    }


    /// C05 on the LIBRARY's own generated moves (the property says "generated moves"): a walk of
    /// `picks.len()` plies in which ply i plays the (picks[i] mod n)-th move the library generates.
    /// No reference-model position is needed: validity is judged on the library board itself.
    fn lib_walk(&mut self, start: Board, picks: &[u8]) -> Result<Flow, Violation> {
        if !self.on(5) {
            return Ok(Flow::Go);
        }
        let mut b = start;
        let dummy = Pos::empty();
        for k in picks {
            let list: Vec<chess::ChessMove> = match guard(|| MoveGen::new_legal(&b).collect()) {
                Ok(l) => l,
                Err(e) => return Err(viol("C05", "generated_moves/panic", format!("{} in {}", e, b))),
            };
            if list.is_empty() {
                break;
            }
            let m = list[(*k as usize) % list.len()];
            // both move-application entry points take turns (the in-place one writes into a used buffer)
            let inplace = (*k & 1) == 1;
            let prev_buf = start;
            let nb = match guard(|| {
                if inplace {
                    let mut out = prev_buf;
                    b.make_move(m, &mut out);
                    out
                } else {
                    b.make_move_new(m)
                }
            }) {
                Ok(x) => x,
                Err(e) => return Err(viol("C05", "generated_move_application/panic", format!("{} applying {} in {}", e, m, b))),
            };
            self.stats.evals += 1;
            self.stats.cnt("reach.library_generated_move_followed");
            if let Err(mut v) = c05_valid(&nb, &dummy) {
                v.detail = format!("after the generated move {} in {}: {}", m, b, v.detail);
                return Err(v);
            }
            c05_monotone(&b, &nb)?;
            b = nb;
        }
        Ok(Flow::Go)
    }

    fn lib_tree(&mut self, start: Board) -> Result<Flow, Violation> {
        if !self.on(5) {
            return Ok(Flow::Go);
        }
        let dummy = Pos::empty();
        let l1: Vec<chess::ChessMove> = MoveGen::new_legal(&start).collect();
        for m1 in l1 {
            let b1 = start.make_move_new(m1);
            self.stats.evals += 1;
            if let Err(mut v) = c05_valid(&b1, &dummy) {
                v.detail = format!("after the generated move {} in {}: {}", m1, start, v.detail);
                return Err(v);
            }
            c05_monotone(&start, &b1)?;
            let l2: Vec<chess::ChessMove> = MoveGen::new_legal(&b1).collect();
            for m2 in l2 {
                let b2 = b1.make_move_new(m2);
                self.stats.evals += 1;
                if let Err(mut v) = c05_valid(&b2, &dummy) {
                    v.detail = format!("after the generated moves {} {} in {}: {}", m1, m2, start, v.detail);
                    return Err(v);
                }
                c05_monotone(&b1, &b2)?;
            }
        }
        self.stats.cnt("reach.full_width_depth2_library_trees");
        Ok(Flow::Go)
    }


    /// Positions obtained through the deprecated UI setters (C03: "however it was obtained"; C08: the
    /// hash of an edited board equals the hash of the same position built from scratch).
    #[allow(deprecated)]
    fn engine_edit(&mut self, c: usize, t: usize, top_b: Board, top_p: Pos, depth: usize, sq: u8, kind: Option<(Kind, Col)>) -> Result<Flow, Violation> {
        if !(self.on(1) || self.on(3) || self.on(4) || self.on(8) || self.on(9) || self.on(18)) || depth >= 8 {
            return Ok(Flow::Go);
        }
        // stay inside the quantifier domain: the edited position must itself be a valid position, and
        // en-passant state (which the setters keep untouched) must not be involved
        if top_p.ep.is_some() || top_b.en_passant().is_some() {
            return Ok(Flow::Go);
        }
        let mut q = top_p.clone();
        q.sq[sq as usize] = kind;
        if q.strict_validity_error().is_some() {
            return Ok(Flow::Go);
        }
        if q == top_p {
            self.stats.cnt("reach.setter_no_op_edit");
        }
        let r = guard(|| match kind {
            Some((k, col)) => top_b.set_piece(lib_kind(k), lib_col(col), lib_sq(sq)),
            None => top_b.clear_square(lib_sq(sq)),
        });
        let nb = match r {
            Ok(Some(b)) => b,
            Ok(None) => {
                self.stats.cnt("na.setter_refused_a_valid_position");
                return Ok(Flow::Go);
            }
            Err(e) => {
                if self.on(3) {
                    return Err(viol("C03", "setter/panic", format!("{} editing {} in {}", e, sq_name(sq), top_p.fen())));
                }
                return Ok(Flow::ForeignDivergence(format!("panic in set_piece/clear_square: {}", e)));
            }
        };
        self.stats.cnt("reach.position_obtained_by_setter");
        self.setter_sibling(&top_b, &top_p, &nb, &q)?;
        {
            let task = self.eng[c].task(t).unwrap();
            task.stack.push((nb, q.clone()));
            task.gen = None;
        }
        self.monitor_position(&nb, &q, "setter", None)?;
        Ok(Flow::Go)
    }

    /// The board before and the board after a setter call are a sibling pair: if they show different positions
    /// they must hash differently (C09) and must not compare equal (C08).
    fn setter_sibling(&mut self, before: &Board, bp: &Pos, after: &Board, ap: &Pos) -> Result<(), Violation> {
        if bp.key_beside() == ap.key_beside() {
            return Ok(());
        }
        if self.on(9) {
            self.stats.evals += 1;
            self.stats.cnt("sibling.setter");
            if before.get_hash() == after.get_hash() {
                return Err(viol(
                    "C09",
                    "sibling/same_hash/setter",
                    format!("{} edited into {} with the setters: both hash to {:016x}", bp.fen(), ap.fen(), after.get_hash()),
                ));
            }
        }
        if self.on(8) && before == after {
            return Err(viol("C08", "eq/different_positions_compare_equal/setter", format!("{} edited into {} with the setters: the boards compare ==", bp.fen(), ap.fen())));
        }
        Ok(())
    }

    /// The deprecated castle-right setters (absolute colour, or "my" / "their").
    #[allow(deprecated)]
    fn engine_rights(&mut self, c: usize, t: usize, top_b: Board, top_p: Pos, depth: usize, code: u8) -> Result<Flow, Violation> {
        if !(self.on(1) || self.on(3) || self.on(4) || self.on(8) || self.on(9) || self.on(18)) || depth >= 8 {
            return Ok(Flow::Go);
        }
        if top_p.ep.is_some() || top_b.en_passant().is_some() {
            return Ok(Flow::Go);
        }
        let add = code & 1 == 1;
        let which = (code >> 1) & 3;
        let col = if (code >> 3) & 1 == 0 { Col::W } else { Col::B };
        let rel = (code >> 4) & 1 == 1;
        let (ki, qi) = if col == Col::W { (crate::model::WK, crate::model::WQ) } else { (crate::model::BK, crate::model::BQ) };
        let mut q = top_p.clone();
        if which != 1 {
            q.castle[ki] = add;
        }
        if which != 0 {
            q.castle[qi] = add;
        }
        if q.strict_validity_error().is_some() {
            return Ok(Flow::Go);
        }
        let cr = match which {
            0 => chess::CastleRights::KingSide,
            1 => chess::CastleRights::QueenSide,
            _ => chess::CastleRights::Both,
        };
        let r = guard(|| {
            let mut b = top_b;
            let mine = col == top_p.stm;
            match (rel, add, mine) {
                (false, true, _) => b.add_castle_rights(lib_col(col), cr),
                (false, false, _) => b.remove_castle_rights(lib_col(col), cr),
                (true, true, true) => b.add_my_castle_rights(cr),
                (true, true, false) => b.add_their_castle_rights(cr),
                (true, false, true) => b.remove_my_castle_rights(cr),
                (true, false, false) => b.remove_their_castle_rights(cr),
            }
            b
        });
        let nb = match r {
            Ok(b) => b,
            Err(e) => {
                if self.on(3) {
                    return Err(viol("C03", "setter/panic", format!("{} changing castle rights (code {}) in {}", e, code, top_p.fen())));
                }
                return Ok(Flow::ForeignDivergence(format!("panic in a castle-right setter: {}", e)));
            }
        };
        self.stats.cnt("reach.position_obtained_by_rights_setter");
        if q == top_p {
            self.stats.cnt("reach.setter_no_op_edit");
        }
        self.setter_sibling(&top_b, &top_p, &nb, &q)?;
        {
            let task = self.eng[c].task(t).unwrap();
            task.stack.push((nb, q.clone()));
            task.gen = None;
        }
        self.monitor_position(&nb, &q, "setter", None)?;
        Ok(Flow::Go)
    }

    // ------------------------------------------------------------------------------ C19

    fn table_new(&mut self, c: usize, size: u64) -> Result<Flow, Violation> {
        let valid = size.count_ones() == 1;
        // refuse absurd allocations (the property is about power-of-two sizes "from 1 upwards"; the
        // harness bounds them at 2^20 to keep memory sane)
        if valid && size > (1 << 20) {
            return Ok(Flow::Go);
        }
        // invalid sizes may be astronomically large: a correct constructor panics BEFORE it allocates; one that
        // allocates first dies in the allocator (abort), which the driver attributes to this step. Invalid sizes
        // between 2^21 and 2^44 are not used (an accepting constructor would really allocate them).
        if !valid && size > (1 << 21) && size < (1 << 44) {
            return Ok(Flow::Go);
        }
        let r = guard(|| CacheTable::<Val>::new(size as usize, TABLE_DEFAULT));
        if self.on(19) {
            self.stats.evals += 1;
            self.stats.distinct.push(0x7AB1E ^ size.wrapping_mul(0x9E3779B97F4A7C15));
            if !valid {
                self.stats.cnt("fault.E-BADSIZE");
            }
        }
        match r {
            Ok(tb) => {
                if !valid {
                    if self.on(19) {
                        return Err(viol("C19", "new/accepted_non_power_of_two", format!("CacheTable::new({}) did not panic", size)));
                    }
                    return Ok(Flow::ForeignDivergence("table accepted a bad size".into()));
                }
                self.stats.cnt("fault.E-SIZE");
                self.eng[c].table = Some((tb, TableModel { size, slots: vec![(0, TABLE_DEFAULT); size as usize] }));
                self.eng[c].wide = if size <= (1 << 16) {
                    match guard(|| CacheTable::<WideVal>::new(size as usize, WIDE_DEFAULT)) {
                        Ok(t) => Some(t),
                        Err(p) => {
                            if self.on(19) {
                                return Err(viol("C19", "new/panicked_on_power_of_two/wide_value", format!("CacheTable::new({}) panicked: {}", size, p)));
                            }
                            None
                        }
                    }
                } else {
                    None
                };
            }
            Err(p) => {
                if valid {
                    if self.on(19) {
                        return Err(viol("C19", "new/panicked_on_power_of_two", format!("CacheTable::new({}) panicked: {}", size, p)));
                    }
                    return Ok(Flow::ForeignDivergence("table refused a good size".into()));
                }
            }
        }
        Ok(Flow::Go)
    }

    fn slot_state(tm: &TableModel, key: u64) -> u64 {
        let s = tm.slots[(key % tm.size) as usize];
        if s.0 == 0 && ex(s.1) == ex(TABLE_DEFAULT) {
            0
        } else if s.0 == key {
            1
        } else {
            2
        }
    }

    fn table_get(&mut self, c: usize, key: u64) -> Result<Flow, Violation> {
        let armed = self.on(19);
        let wide_got = self.eng[c].wide.as_ref().map(|tw| narrow(tw.get(key), key));
        if let Some((tb, tm)) = self.eng[c].table.as_ref() {
            let got = tb.get(key);
            let slot = tm.slots[(key % tm.size) as usize];
            let want = if slot.0 == key { Some(slot.1) } else { None };
            if let (true, Some(wg)) = (armed, wide_got) {
                if wg.map(ex) != want.map(ex) {
                    let sig = match (wg, want) {
                        (Some(_), None) => "get/hit_under_other_hash/wide_value",
                        (None, Some(_)) => "get/miss_on_stored_hash/wide_value",
                        _ => "get/wrong_value/wide_value",
                    };
                    return Err(viol(
                        "C19",
                        sig,
                        format!("size {} (32-byte values): get({:016x}) = {:?}, slot holds ({:016x}, {:?}) so expected {:?}", tm.size, key, wg, slot.0, slot.1, want),
                    ));
                }
            }
            let st = Self::slot_state(tm, key);
            let size = tm.size;
            if armed {
                self.stats.evals += 1;
                if st != 0 || got.is_some() {
                    self.stats.distinct.push((size.trailing_zeros() as u64) << 8 | st << 4 | 1);
                }
                if st == 2 {
                    self.stats.cnt("reach.get_same_slot_other_hash");
                }
                if got.map(ex) != want.map(ex) {
                    let sig = match (got, want) {
                        (Some(_), None) => "get/hit_under_other_hash",
                        (None, Some(_)) => "get/miss_on_stored_hash",
                        _ => "get/wrong_value",
                    };
                    return Err(viol(
                        "C19",
                        sig,
                        format!("size {}: get({:016x}) = {:?}, slot holds ({:016x}, {:?}) so expected {:?}", size, key, got, slot.0, slot.1, want),
                    ));
                }
            }
        }
        Ok(Flow::Go)
    }

    fn table_add(&mut self, c: usize, key: u64, val: u8) -> Result<Flow, Violation> {
        self.stamp += 1;
        let mut v = Val { depth: (self.stamp % 3) as u8, stamp: self.stamp };
        let armed = self.on(19);
        let es = &mut self.eng[c];
        let wide = &mut es.wide;
        if let Some((tb, tm)) = es.table.as_mut() {
            let st = Self::slot_state(tm, key);
            let cur = tm.slots[(key % tm.size) as usize].1;
            match val {
                1 => {
                    v = cur;
                    self.stats.cnt("reach.write_of_value_equal_to_slot_content");
                }
                2 => v = TABLE_DEFAULT,
                3 => {
                    // equal under the value type's own PartialEq (same depth), but a different value
                    v.depth = cur.depth;
                    self.stats.cnt("reach.write_of_value_eq_but_not_identical");
                }
                4 => {
                    v.depth = 255; // a value that is not equal to itself
                    self.stats.cnt("reach.write_of_non_reflexive_value");
                }
                _ => {}
            }
            tb.add(key, v);
            if let Some(tw) = wide.as_mut() {
                tw.add(key, widen(v, key));
                if armed {
                    let got = narrow(tw.get(key), key);
                    if got.map(ex) != Some(ex(v)) {
                        return Err(viol("C19", "add/not_readable_afterwards/wide_value", format!("(32-byte values) add({:016x}, {:?}) then get = {:?}", key, v, got)));
                    }
                }
            }
            let idx = (key % tm.size) as usize;
            if st == 2 {
                self.stats.cnt("reach.table_eviction");
            }
            tm.slots[idx] = (key, v);
            if armed {
                self.stats.evals += 1;
                self.stats.distinct.push((tm.size.trailing_zeros() as u64) << 8 | st << 4 | 2);
                let got = tb.get(key);
                if got.map(ex) != Some(ex(v)) {
                    return Err(viol("C19", "add/not_readable_afterwards", format!("size {}: add({:016x}, {:?}) then get = {:?}", tm.size, key, v, got)));
                }
            }
        }
        if armed {
            self.table_audit(c)?;
        }
        Ok(Flow::Go)
    }

    fn table_replace_if(&mut self, c: usize, key: u64, pred: u8, val: u8) -> Result<Flow, Violation> {
        self.stamp += 1;
        let mut v = Val { depth: (self.stamp % 3) as u8, stamp: self.stamp };
        let armed = self.on(19);
        let es = &mut self.eng[c];
        let wide = &mut es.wide;
        if let Some((tb, tm)) = es.table.as_mut() {
            let idx = (key % tm.size) as usize;
            let cur = tm.slots[idx];
            match val {
                1 => {
                    v = cur.1;
                    self.stats.cnt("reach.write_of_value_equal_to_slot_content");
                }
                2 => v = TABLE_DEFAULT,
                3 => {
                    v.depth = cur.1.depth;
                    self.stats.cnt("reach.write_of_value_eq_but_not_identical");
                }
                4 => {
                    v.depth = 255;
                    self.stats.cnt("reach.write_of_non_reflexive_value");
                }
                _ => {}
            }
            let st = Self::slot_state(tm, key);
            let seen: Cell<Option<(u8, u32)>> = Cell::new(None);
            let stamp = v.stamp;
            let decide = move |old: Val| -> bool {
                match pred {
                    0 => true,
                    1 => false,
                    2 => ex(old) == ex(TABLE_DEFAULT),
                    3 => old.stamp < stamp,
                    _ => old.stamp % 2 == 1,
                }
            };
            let f = |old: Val| -> bool {
                seen.set(Some(ex(old)));
                if pred == 5 {
                    panic!("predicate gives up");
                }
                decide(old)
            };
            if pred == 5 {
                // a predicate that never returns true (it unwinds): the slot must keep its content
                let _ = guard(|| tb.replace_if(key, v, f));
                self.stats.cnt("reach.replace_if_with_unwinding_predicate");
            } else {
                tb.replace_if(key, v, f);
            }
            let decision = if pred == 5 { false } else { decide(cur.1) };
            if decision {
                tm.slots[idx] = (key, v);
            }
            if let Some(tw) = wide.as_mut() {
                let wseen: Cell<Option<(u8, u32)>> = Cell::new(None);
                let wf = |old: WideVal| -> bool {
                    wseen.set(Some(ex(old.v())));
                    if pred == 5 {
                        panic!("predicate gives up");
                    }
                    decide(old.v())
                };
                if pred == 5 {
                    let _ = guard(|| tw.replace_if(key, widen(v, key), wf));
                } else {
                    tw.replace_if(key, widen(v, key), wf);
                }
                if armed {
                    if wseen.get().is_some() && wseen.get() != Some(ex(cur.1)) {
                        return Err(viol(
                            "C19",
                            "replace_if/predicate_saw_wrong_value/wide_value",
                            format!("(32-byte values) predicate saw {:?}, slot held {:?}", wseen.get(), cur.1),
                        ));
                    }
                    let got = narrow(tw.get(key), key);
                    let slot = tm.slots[idx];
                    let want = if slot.0 == key { Some(slot.1) } else { None };
                    if got.map(ex) != want.map(ex) {
                        return Err(viol(
                            "C19",
                            if decision { "replace_if/not_replaced_when_predicate_true/wide_value" } else { "replace_if/replaced_when_predicate_false/wide_value" },
                            format!("(32-byte values) after replace_if({:016x}, pred {}) get = {:?}, expected {:?}", key, pred, got, want),
                        ));
                    }
                }
            }
            if armed {
                self.stats.evals += 1;
                self.stats.distinct.push((tm.size.trailing_zeros() as u64) << 8 | st << 4 | 3 | (pred as u64) << 12);
                // the predicate, whenever it is consulted, must see the slot's current value (an implementation
                // that can decide without consulting it is judged by the resulting slot content below)
                if seen.get().is_some() && seen.get() != Some(ex(cur.1)) {
                    return Err(viol(
                        "C19",
                        "replace_if/predicate_saw_wrong_value",
                        format!("size {}: predicate saw {:?}, slot held {:?}", tm.size, seen.get(), cur.1),
                    ));
                }
                let got = tb.get(key);
                let slot = tm.slots[idx];
                let want = if slot.0 == key { Some(slot.1) } else { None };
                if got.map(ex) != want.map(ex) {
                    return Err(viol(
                        "C19",
                        if decision { "replace_if/not_replaced_when_predicate_true" } else { "replace_if/replaced_when_predicate_false" },
                        format!("size {}: after replace_if({:016x}, pred {}) get = {:?}, expected {:?}", tm.size, key, pred, got, want),
                    ));
                }
            }
        }
        if armed {
            self.table_audit(c)?;
        }
        Ok(Flow::Go)
    }

    /// Read back a window of slots through their stored keys: a write must not have touched any other slot.
    fn table_audit(&mut self, c: usize) -> Result<(), Violation> {
        if let Some((tb, tm)) = self.eng[c].table.as_ref() {
            let n = tm.size.min(64);
            let start = (self.cur_n as u64) % tm.size;
            for k in 0..n {
                let idx = ((start + k) % tm.size) as usize;
                let (h, v) = tm.slots[idx];
                // slot idx is addressed by any key congruent to idx; its stored key addresses it
                let probe = if (h % tm.size) as usize == idx { h } else { idx as u64 };
                let got = tb.get(probe);
                let want = if h == probe { Some(v) } else { None };
                if let Some(tw) = self.eng[c].wide.as_ref() {
                    let wg = narrow(tw.get(probe), probe);
                    if wg.map(ex) != want.map(ex) {
                        return Err(viol(
                            "C19",
                            "audit/other_slot_changed/wide_value",
                            format!("size {} (32-byte values): slot {} should hold ({:016x},{:?}) but get({:016x}) = {:?}", tm.size, idx, h, v, probe, wg),
                        ));
                    }
                }
                if got.map(ex) != want.map(ex) {
                    return Err(viol(
                        "C19",
                        "audit/other_slot_changed",
                        format!("size {}: slot {} should hold ({:016x},{:?}) but get({:016x}) = {:?}", tm.size, idx, h, v, probe, got),
                    ));
                }
            }
        }
        Ok(())
    }
}
