//! A tiny JSON value, parser and string escaper (no dependency): replay files, known findings, evidence.

use std::collections::BTreeMap;

#[derive(Clone, Debug, PartialEq)]
pub enum J {
    Null,
    Bool(bool),
    Num(f64),
    Str(String),
    Arr(Vec<J>),
    Obj(BTreeMap<String, J>),
}

impl J {
    pub fn get(&self, k: &str) -> Option<&J> {
        if let J::Obj(m) = self {
            m.get(k)
        } else {
            None
        }
    }
    pub fn str(&self) -> Option<&str> {
        if let J::Str(s) = self {
            Some(s)
        } else {
            None
        }
    }
    pub fn arr(&self) -> Option<&Vec<J>> {
        if let J::Arr(a) = self {
            Some(a)
        } else {
            None
        }
    }
    pub fn num(&self) -> Option<f64> {
        if let J::Num(n) = self {
            Some(*n)
        } else {
            None
        }
    }
}

pub fn esc(s: &str) -> String {
    let mut o = String::with_capacity(s.len() + 2);
    o.push('"');
    for c in s.chars() {
        match c {
            '"' => o.push_str("\\\""),
            '\\' => o.push_str("\\\\"),
            '\n' => o.push_str("\\n"),
            '\r' => o.push_str("\\r"),
            '\t' => o.push_str("\\t"),
            c if (c as u32) < 0x20 => o.push_str(&format!("\\u{:04x}", c as u32)),
            c => o.push(c),
        }
    }
    o.push('"');
    o
}

pub fn parse(t: &str) -> Option<J> {
    let b: Vec<char> = t.chars().collect();
    let mut i = 0;
    let v = val(&b, &mut i)?;
    ws(&b, &mut i);
    if i == b.len() {
        Some(v)
    } else {
        None
    }
}
fn ws(b: &[char], i: &mut usize) {
    while *i < b.len() && b[*i].is_whitespace() {
        *i += 1;
    }
}
fn val(b: &[char], i: &mut usize) -> Option<J> {
    ws(b, i);
    match *b.get(*i)? {
        '{' => {
            *i += 1;
            let mut m = BTreeMap::new();
            ws(b, i);
            if *b.get(*i)? == '}' {
                *i += 1;
                return Some(J::Obj(m));
            }
            loop {
                ws(b, i);
                let k = match val(b, i)? {
                    J::Str(s) => s,
                    _ => return None,
                };
                ws(b, i);
                if *b.get(*i)? != ':' {
                    return None;
                }
                *i += 1;
                let v = val(b, i)?;
                m.insert(k, v);
                ws(b, i);
                match *b.get(*i)? {
                    ',' => *i += 1,
                    '}' => {
                        *i += 1;
                        return Some(J::Obj(m));
                    }
                    _ => return None,
                }
            }
        }
        '[' => {
            *i += 1;
            let mut a = vec![];
            ws(b, i);
            if *b.get(*i)? == ']' {
                *i += 1;
                return Some(J::Arr(a));
            }
            loop {
                a.push(val(b, i)?);
                ws(b, i);
                match *b.get(*i)? {
                    ',' => *i += 1,
                    ']' => {
                        *i += 1;
                        return Some(J::Arr(a));
                    }
                    _ => return None,
                }
            }
        }
        '"' => {
            *i += 1;
            let mut s = String::new();
            loop {
                let c = *b.get(*i)?;
                *i += 1;
                match c {
                    '"' => return Some(J::Str(s)),
                    '\\' => {
                        let e = *b.get(*i)?;
                        *i += 1;
                        match e {
                            'n' => s.push('\n'),
                            'r' => s.push('\r'),
                            't' => s.push('\t'),
                            'b' => s.push('\u{8}'),
                            'f' => s.push('\u{c}'),
                            'u' => {
                                let h: String = b.get(*i..*i + 4)?.iter().collect();
                                *i += 4;
                                s.push(char::from_u32(u32::from_str_radix(&h, 16).ok()?).unwrap_or('\u{fffd}'));
                            }
                            other => s.push(other),
                        }
                    }
                    c => s.push(c),
                }
            }
        }
        't' => {
            *i += 4;
            Some(J::Bool(true))
        }
        'f' => {
            *i += 5;
            Some(J::Bool(false))
        }
        'n' => {
            *i += 4;
            Some(J::Null)
        }
        _ => {
            let st = *i;
            while *i < b.len() && (b[*i].is_ascii_digit() || "+-.eE".contains(b[*i])) {
                *i += 1;
            }
            let s: String = b[st..*i].iter().collect();
            s.parse::<f64>().ok().map(J::Num)
        }
    }
}
