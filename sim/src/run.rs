//! Running one seeded simulation, replaying a script, minimising a failing script, replay files.

use crate::exec::*;
use crate::json::{self, J};
use crate::ops::*;
use crate::oracle::Violation;
use crate::rng::mix;
use crate::world::*;

pub fn armed_for(prop: usize) -> u32 {
    1u32 << prop
}

pub fn run_seed(verif_seed: u64, prop: usize, fi: bool, idx: u64) -> u64 {
    mix(&[verif_seed, prop as u64, fi as u64, idx])
}

/// Run `f` on a fresh OS thread and wait for it. A library that keeps per-thread state (a memo in a
/// `thread_local!`) would otherwise carry it from one run or replay to the next and make replays depend
/// on what the process did before; a fresh thread starts every run from the same library state.
pub fn hermetic<T: Send>(f: impl FnOnce() -> T + Send) -> T {
    std::thread::scope(|sc| {
        std::thread::Builder::new()
            .stack_size(16 << 20)
            .spawn_scoped(sc, f)
            .expect("cannot spawn run thread")
            .join()
            .unwrap_or_else(|e| std::panic::resume_unwind(e))
    })
}

/// run indices from here on are supplementary runs (see `Profile::supp`)
pub const SUPP_BASE: u64 = 1 << 40;

pub fn run_one(verif_seed: u64, prop: usize, fi: bool, idx: u64) -> RunOut {
    hermetic(|| {
        let seed = run_seed(verif_seed, prop, fi, idx);
        let mut prof = profile_for(prop, fi);
        prof.supp = idx >= SUPP_BASE;
        let w = World::new(seed, prof, armed_for(prop));
        w.run()
    })
}

pub struct ReplayOut {
    pub violation: Option<Violation>,
    pub foreign: Option<String>,
    pub digest: u64,
    pub steps_run: usize,
    pub roots: Vec<Option<String>>,
}

/// Execute a script against a fresh executor: no PRNG, no clock.
pub fn replay(script: &[Step], armed: u32, record_roots: bool) -> ReplayOut {
    hermetic(|| replay_here(script, armed, record_roots))
}

fn replay_here(script: &[Step], armed: u32, record_roots: bool) -> ReplayOut {
    let mut ex = Exec::new(armed);
    ex.record_roots = record_roots;
    let mut out = ReplayOut { violation: None, foreign: None, digest: 0, steps_run: 0, roots: vec![] };
    for s in script {
        out.steps_run += 1;
        match ex.step(s) {
            Ok(Flow::Go) => {}
            Ok(Flow::ForeignDivergence(d)) => {
                out.foreign = Some(d);
                break;
            }
            Err(v) => {
                out.violation = Some(v);
                break;
            }
        }
    }
    out.digest = ex.digest.0;
    out.roots = std::mem::take(&mut ex.roots);
    out
}

/// Re-execute a script and return the FEN of the first recorded position whose census key is `key`.
pub fn replay_watch(script: &[Step], armed: u32, key: (u64, u64)) -> Option<String> {
    hermetic(|| replay_watch_here(script, armed, key))
}

fn replay_watch_here(script: &[Step], armed: u32, key: (u64, u64)) -> Option<String> {
    let mut ex = Exec::new(armed);
    ex.watch_key = Some(key);
    for s in script {
        match ex.step(s) {
            Ok(Flow::Go) => {}
            _ => break,
        }
        if ex.watch_hit.is_some() {
            break;
        }
    }
    ex.watch_hit
}

fn same(sig: &str, script: &[Step], armed: u32) -> bool {
    match replay(script, armed, false).violation {
        Some(v) => v.sig == sig,
        None => false,
    }
}

pub struct MinStats {
    pub replays: usize,
    pub original: usize,
    pub minimised: usize,
}

/// ddmin over steps, then re-rooting at a later model position, then ddmin again.
pub fn minimise(script: Vec<Step>, sig: &str, armed: u32, budget: usize) -> (Vec<Step>, MinStats) {
    let mut st = MinStats { replays: 0, original: script.len(), minimised: 0 };
    let t0 = std::time::Instant::now();
    let mut cur = script;
    // cut everything after the violating step
    let r = replay(&cur, armed, false);
    st.replays += 1;
    cur.truncate(r.steps_run);
    let over = |st: &MinStats| st.replays >= budget || t0.elapsed().as_secs() >= 40;
    let ddmin = |cur: &mut Vec<Step>, st: &mut MinStats| {
        let mut n = 2usize;
        while cur.len() >= 2 && !over(st) {
            let chunk = (cur.len() + n - 1) / n;
            let mut reduced = false;
            let mut i = 0;
            while i < cur.len() && !over(st) {
                let hi = (i + chunk).min(cur.len());
                // never drop the last step (the one that violates) on its own chunk boundary issues: allowed, replay decides
                let mut cand: Vec<Step> = Vec::with_capacity(cur.len() - (hi - i));
                cand.extend_from_slice(&cur[..i]);
                cand.extend_from_slice(&cur[hi..]);
                st.replays += 1;
                if !cand.is_empty() && same(sig, &cand, armed) {
                    *cur = cand;
                    n = (n - 1).max(2);
                    reduced = true;
                    break;
                }
                i = hi;
            }
            if !reduced {
                if n >= cur.len() {
                    break;
                }
                n = (n * 2).min(cur.len());
            }
        }
    };
    ddmin(&mut cur, &mut st);
    // re-rooting: replace a prefix by StartFen(model FEN of the server position before step k)
    if !over(&st) {
        let r = replay(&cur, armed, true);
        st.replays += 1;
        let roots = r.roots;
        let mut k = cur.len().saturating_sub(1);
        while k >= 1 && !over(&st) {
            if let Some(Some(fen)) = roots.get(k) {
                let mut cand = vec![Step { n: 0, t: 0, faults: vec![], op: Op::StartFen { text: fen.clone() } }];
                cand.extend_from_slice(&cur[k..]);
                st.replays += 1;
                if cand.len() < cur.len() && same(sig, &cand, armed) {
                    cur = cand;
                    break;
                }
            }
            // try a handful of cut points, from the latest backwards
            if cur.len() - k > 12 {
                k = k.saturating_sub((cur.len() - k) / 2);
            } else {
                k -= 1;
            }
        }
        ddmin(&mut cur, &mut st);
    }
    // argument shrinking: texts, builder placements, masks and walk lengths inside the surviving steps
    if !over(&st) {
        shrink_arguments(&mut cur, sig, armed, &mut st, budget);
    }
    st.minimised = cur.len();
    (cur, st)
}

/// ddmin over the characters of a string argument.
fn shrink_text(text: &str, mut keeps: impl FnMut(&str) -> bool, tries: &mut usize) -> String {
    let mut cur: Vec<char> = text.chars().collect();
    let mut n = 2usize;
    while cur.len() >= 2 && *tries > 0 {
        let chunk = (cur.len() + n - 1) / n;
        let mut reduced = false;
        let mut i = 0;
        while i < cur.len() && *tries > 0 {
            let hi = (i + chunk).min(cur.len());
            let cand: String = cur[..i].iter().chain(cur[hi..].iter()).collect();
            *tries -= 1;
            if keeps(&cand) {
                cur = cand.chars().collect();
                n = (n - 1).max(2);
                reduced = true;
                break;
            }
            i = hi;
        }
        if !reduced {
            if n >= cur.len() {
                break;
            }
            n = (n * 2).min(cur.len());
        }
    }
    cur.into_iter().collect()
}

fn shrink_arguments(cur: &mut Vec<Step>, sig: &str, armed: u32, st: &mut MinStats, budget: usize) {
    let mut tries = budget.saturating_sub(st.replays).min(1200);
    for i in 0..cur.len() {
        if tries == 0 {
            break;
        }
        let op = cur[i].op.clone();
        // a closure that tests a candidate op at position i
        let mut test = |cand: Op, cur: &mut Vec<Step>| -> bool {
            let saved = cur[i].op.clone();
            cur[i].op = cand;
            let ok = same(sig, cur, armed);
            if !ok {
                cur[i].op = saved;
            }
            ok
        };
        match op {
            Op::Validate { text } => {
                let t = shrink_text(&text, |c| { let mut v = cur.clone(); v[i].op = Op::Validate { text: c.to_string() }; same(sig, &v, armed) }, &mut tries);
                cur[i].op = Op::Validate { text: t };
            }
            Op::DecodeSan { fen, text } => {
                let t = shrink_text(&text, |c| { let mut v = cur.clone(); v[i].op = Op::DecodeSan { fen: fen.clone(), text: c.to_string() }; same(sig, &v, armed) }, &mut tries);
                cur[i].op = Op::DecodeSan { fen, text: t };
            }
            Op::DecodeUci { text } => {
                let t = shrink_text(&text, |c| { let mut v = cur.clone(); v[i].op = Op::DecodeUci { text: c.to_string() }; same(sig, &v, armed) }, &mut tries);
                cur[i].op = Op::DecodeUci { text: t };
            }
            Op::DecodeSquare { text } => {
                let t = shrink_text(&text, |c| { let mut v = cur.clone(); v[i].op = Op::DecodeSquare { text: c.to_string() }; same(sig, &v, armed) }, &mut tries);
                cur[i].op = Op::DecodeSquare { text: t };
            }
            Op::ValidateBuilder { placement, stm, castle, ep_file, order } => {
                // take men off the board one at a time, then drop rights, en-passant file and call order
                let mut pl: Vec<u8> = placement.clone().into_bytes();
                for k in 0..pl.len() {
                    if tries == 0 {
                        break;
                    }
                    if pl[k] != b'.' {
                        let old = pl[k];
                        pl[k] = b'.';
                        tries -= 1;
                        if !test(Op::ValidateBuilder { placement: String::from_utf8(pl.clone()).unwrap(), stm, castle, ep_file, order }, cur) {
                            pl[k] = old;
                        }
                    }
                }
                let placement = String::from_utf8(pl).unwrap();
                for (c2, e2, o2) in [(0u8, ep_file, order), (castle, 8u8, order), (castle, ep_file, 0u8)] {
                    if tries == 0 {
                        break;
                    }
                    if let Op::ValidateBuilder { castle: cc, ep_file: ee, order: oo, .. } = cur[i].op.clone() {
                        let (nc, ne, no) = (if c2 == 0 { 0 } else { cc }, if e2 == 8 { 8 } else { ee }, if o2 == 0 { 0 } else { oo });
                        tries -= 1;
                        test(Op::ValidateBuilder { placement: placement.clone(), stm, castle: nc, ep_file: ne, order: no }, cur);
                    }
                }
            }
            Op::Engine { c, task, e: EOp::SetMask(bb) } | Op::Engine { c, task, e: EOp::RemoveMask(bb) } => {
                let is_set = matches!(op, Op::Engine { e: EOp::SetMask(_), .. });
                let mut m = bb;
                let mut bit = 0;
                while bit < 64 && tries > 0 {
                    if m & (1u64 << bit) != 0 && m.count_ones() > 1 {
                        let cand = m & !(1u64 << bit);
                        tries -= 1;
                        let e = if is_set { EOp::SetMask(cand) } else { EOp::RemoveMask(cand) };
                        if test(Op::Engine { c, task, e }, cur) {
                            m = cand;
                        }
                    }
                    bit += 1;
                }
            }
            Op::Engine { c, task, e: EOp::LibWalk { picks } } => {
                let mut pk = picks.clone();
                while pk.len() > 1 && tries > 0 {
                    let mut shorter = pk.clone();
                    shorter.pop();
                    tries -= 1;
                    if test(Op::Engine { c, task, e: EOp::LibWalk { picks: shorter.clone() } }, cur) {
                        pk = shorter;
                    } else {
                        break;
                    }
                }
            }
            _ => {}
        }
    }
    st.replays += 1200usize.saturating_sub(tries).min(1200);
}

// ------------------------------------------------------------------------------ replay files

pub struct ReplayFile {
    pub property: String,
    pub signature: String,
    pub detail: String,
    pub script: Vec<Step>,
}

pub fn write_replay(
    path: &str,
    prop: &str,
    v: &Violation,
    script: &[Step],
    provenance: &str,
    cfg: &str,
) -> std::io::Result<()> {
    let mut s = String::new();
    s.push_str("{\n");
    s.push_str("  \"format\": 1,\n");
    s.push_str(&format!("  \"property\": {},\n", json::esc(prop)));
    s.push_str(&format!("  \"signature\": {},\n", json::esc(&v.sig)));
    s.push_str(&format!("  \"detail\": {},\n", json::esc(&v.detail)));
    s.push_str(&format!("  \"provenance\": {},\n", provenance));
    s.push_str(&format!("  \"config\": {},\n", if cfg.is_empty() { "{}" } else { cfg }));
    s.push_str("  \"script\": [\n");
    for (i, st) in script.iter().enumerate() {
        s.push_str(&format!("    {}{}\n", json::esc(&st.to_line()), if i + 1 < script.len() { "," } else { "" }));
    }
    s.push_str("  ]\n}\n");
    if let Some(dir) = std::path::Path::new(path).parent() {
        std::fs::create_dir_all(dir)?;
    }
    std::fs::write(path, s)
}

pub fn read_replay(path: &str) -> Result<ReplayFile, String> {
    let t = std::fs::read_to_string(path).map_err(|e| format!("cannot read {}: {}", path, e))?;
    let j = json::parse(&t).ok_or_else(|| format!("{} is not JSON", path))?;
    let property = j.get("property").and_then(|x| x.str()).ok_or("no property")?.to_string();
    let signature = j.get("signature").and_then(|x| x.str()).ok_or("no signature")?.to_string();
    let detail = j.get("detail").and_then(|x| x.str()).unwrap_or("").to_string();
    let mut script = vec![];
    for l in j.get("script").and_then(|x| x.arr()).ok_or("no script")? {
        let line = l.str().ok_or("script entry not a string")?;
        script.push(Step::parse(line).ok_or_else(|| format!("bad script line {:?}", line))?);
    }
    Ok(ReplayFile { property, signature, detail, script })
}

#[derive(Clone, Debug)]
pub struct KnownFinding {
    pub property: String,
    pub signature: String,
    pub status: String,
    pub what: String,
    pub commit: String,
}

pub fn read_known(path: &str) -> Vec<KnownFinding> {
    // line format: `open: property=<id> signature=<sig> <what>` | `fixed: property=<id> <commit> signature=<sig> <what>`
    let mut out = vec![];
    if let Ok(t) = std::fs::read_to_string(path) {
        for line in t.lines() {
            let line = line.trim();
            let (status, rest) = if let Some(r) = line.strip_prefix("open:") {
                ("open", r.trim())
            } else if let Some(r) = line.strip_prefix("fixed:") {
                ("fixed", r.trim())
            } else {
                continue;
            };
            let mut property = String::new();
            let mut signature = String::new();
            let mut commit = String::new();
            let mut what: Vec<&str> = vec![];
            for tok in rest.split(' ') {
                if signature.is_empty() {
                    if let Some(p) = tok.strip_prefix("property=") {
                        property = p.to_string();
                    } else if let Some(sg) = tok.strip_prefix("signature=") {
                        signature = sg.to_string();
                    } else if !tok.is_empty() {
                        commit = tok.to_string();
                    }
                } else {
                    what.push(tok);
                }
            }
            out.push(KnownFinding { property, signature, status: status.to_string(), what: what.join(" "), commit });
        }
    }
    out
}
