//! The reference model: a deliberately naive mailbox implementation of the FIDE Laws.
//! It shares NO code and NO data with the `chess` crate (no bitboards, no tables): everything is
//! done by walking squares one at a time. This is the oracle and the trusted base; it is tested
//! against published perft numbers (see `selftest.rs`) before any check is believed.

use std::fmt::Write as _;

#[derive(Copy, Clone, PartialEq, Eq, Debug, PartialOrd, Ord, Hash)]
pub enum Kind {
    P,
    N,
    B,
    R,
    Q,
    K,
}
pub const KINDS: [Kind; 6] = [Kind::P, Kind::N, Kind::B, Kind::R, Kind::Q, Kind::K];
pub const PROMOS: [Kind; 4] = [Kind::Q, Kind::N, Kind::R, Kind::B];

#[derive(Copy, Clone, PartialEq, Eq, Debug, PartialOrd, Ord, Hash)]
pub enum Col {
    W,
    B,
}
impl Col {
    pub fn other(self) -> Col {
        match self {
            Col::W => Col::B,
            Col::B => Col::W,
        }
    }
    pub fn idx(self) -> usize {
        match self {
            Col::W => 0,
            Col::B => 1,
        }
    }
}

pub type Sq = u8; // rank*8 + file, a1 = 0, h8 = 63

#[inline]
pub fn file_of(s: Sq) -> i32 {
    (s & 7) as i32
}
#[inline]
pub fn rank_of(s: Sq) -> i32 {
    (s >> 3) as i32
}
#[inline]
pub fn mk(file: i32, rank: i32) -> Option<Sq> {
    if (0..8).contains(&file) && (0..8).contains(&rank) {
        Some((rank * 8 + file) as Sq)
    } else {
        None
    }
}
pub fn sq_name(s: Sq) -> String {
    let mut o = String::new();
    o.push((b'a' + (s & 7)) as char);
    o.push((b'1' + (s >> 3)) as char);
    o
}
pub fn parse_sq(t: &str) -> Option<Sq> {
    let b = t.as_bytes();
    if b.len() != 2 || !(b'a'..=b'h').contains(&b[0]) || !(b'1'..=b'8').contains(&b[1]) {
        return None;
    }
    Some((b[1] - b'1') * 8 + (b[0] - b'a'))
}

#[derive(Copy, Clone, PartialEq, Eq, Debug, PartialOrd, Ord, Hash)]
pub struct Mv {
    pub from: Sq,
    pub to: Sq,
    pub promo: Option<Kind>,
}
impl Mv {
    pub fn new(from: Sq, to: Sq, promo: Option<Kind>) -> Mv {
        Mv { from, to, promo }
    }
    /// Coordinate text written by the model's own formatter (source, destination, lower-case promotion).
    pub fn uci(&self) -> String {
        let mut s = sq_name(self.from);
        s.push_str(&sq_name(self.to));
        if let Some(k) = self.promo {
            s.push(kind_letter_lower(k));
        }
        s
    }
    pub fn parse_uci(t: &str) -> Option<Mv> {
        if !t.is_ascii() || (t.len() != 4 && t.len() != 5) {
            return None;
        }
        let from = parse_sq(&t[0..2])?;
        let to = parse_sq(&t[2..4])?;
        let promo = if t.len() == 5 {
            Some(match t.as_bytes()[4] {
                b'q' => Kind::Q,
                b'r' => Kind::R,
                b'b' => Kind::B,
                b'n' => Kind::N,
                _ => return None,
            })
        } else {
            None
        };
        Some(Mv { from, to, promo })
    }
}

pub fn kind_letter_lower(k: Kind) -> char {
    match k {
        Kind::P => 'p',
        Kind::N => 'n',
        Kind::B => 'b',
        Kind::R => 'r',
        Kind::Q => 'q',
        Kind::K => 'k',
    }
}
pub fn kind_letter_upper(k: Kind) -> char {
    kind_letter_lower(k).to_ascii_uppercase()
}

// castling right indices
pub const WK: usize = 0;
pub const WQ: usize = 1;
pub const BK: usize = 2;
pub const BQ: usize = 3;

#[derive(Clone, PartialEq, Eq, Debug, Hash)]
pub struct Pos {
    pub sq: [Option<(Kind, Col)>; 64],
    pub stm: Col,
    pub castle: [bool; 4],
    /// FIDE / FEN en-passant *target* square: the square the pawn passed over, recorded after EVERY
    /// double push (the "independent standard writer" of property C06), whether or not a capture
    /// is possible.
    pub ep: Option<Sq>,
    pub halfmove: u32,
    pub fullmove: u32,
}

#[derive(Copy, Clone, PartialEq, Eq, Debug)]
pub enum Status {
    Ongoing,
    Stalemate,
    Checkmate,
}

const KNIGHT_D: [(i32, i32); 8] = [(1, 2), (2, 1), (2, -1), (1, -2), (-1, -2), (-2, -1), (-2, 1), (-1, 2)];
const KING_D: [(i32, i32); 8] = [(1, 0), (1, 1), (0, 1), (-1, 1), (-1, 0), (-1, -1), (0, -1), (1, -1)];
const ROOK_D: [(i32, i32); 4] = [(1, 0), (-1, 0), (0, 1), (0, -1)];
const BISHOP_D: [(i32, i32); 4] = [(1, 1), (1, -1), (-1, 1), (-1, -1)];

impl Pos {
    pub fn empty() -> Pos {
        Pos { sq: [None; 64], stm: Col::W, castle: [false; 4], ep: None, halfmove: 0, fullmove: 1 }
    }

    pub fn initial() -> Pos {
        Pos::from_fen("rnbqkbnr/pppppppp/8/8/8/8/PPPPPPPP/RNBQKBNR w KQkq - 0 1").unwrap()
    }

    pub fn king_sq(&self, c: Col) -> Option<Sq> {
        (0..64u8).find(|s| self.sq[*s as usize] == Some((Kind::K, c)))
    }

    pub fn count(&self, k: Kind, c: Col) -> usize {
        self.sq.iter().filter(|x| **x == Some((k, c))).count()
    }
    pub fn men(&self, c: Col) -> usize {
        self.sq.iter().filter(|x| matches!(x, Some((_, cc)) if *cc == c)).count()
    }

    /// Squares of `by`-coloured men that attack `target` (walking, square by square).
    pub fn attackers(&self, target: Sq, by: Col) -> Vec<Sq> {
        let mut out = vec![];
        let (f, r) = (file_of(target), rank_of(target));
        // pawns: a pawn of colour `by` on (f±1, r∓dir) attacks target
        let dir = if by == Col::W { 1 } else { -1 };
        for df in [-1, 1] {
            if let Some(s) = mk(f + df, r - dir) {
                if self.sq[s as usize] == Some((Kind::P, by)) {
                    out.push(s);
                }
            }
        }
        for (df, dr) in KNIGHT_D {
            if let Some(s) = mk(f + df, r + dr) {
                if self.sq[s as usize] == Some((Kind::N, by)) {
                    out.push(s);
                }
            }
        }
        for (df, dr) in KING_D {
            if let Some(s) = mk(f + df, r + dr) {
                if self.sq[s as usize] == Some((Kind::K, by)) {
                    out.push(s);
                }
            }
        }
        for (df, dr) in ROOK_D {
            let (mut cf, mut cr) = (f + df, r + dr);
            while let Some(s) = mk(cf, cr) {
                if let Some((k, c)) = self.sq[s as usize] {
                    if c == by && (k == Kind::R || k == Kind::Q) {
                        out.push(s);
                    }
                    break;
                }
                cf += df;
                cr += dr;
            }
        }
        for (df, dr) in BISHOP_D {
            let (mut cf, mut cr) = (f + df, r + dr);
            while let Some(s) = mk(cf, cr) {
                if let Some((k, c)) = self.sq[s as usize] {
                    if c == by && (k == Kind::B || k == Kind::Q) {
                        out.push(s);
                    }
                    break;
                }
                cf += df;
                cr += dr;
            }
        }
        out.sort();
        out
    }

    pub fn attacked(&self, target: Sq, by: Col) -> bool {
        !self.attackers(target, by).is_empty()
    }

    /// Enemy men giving check to the side to move.
    pub fn checkers(&self) -> Vec<Sq> {
        match self.king_sq(self.stm) {
            Some(k) => self.attackers(k, self.stm.other()),
            None => vec![],
        }
    }
    pub fn in_check(&self) -> bool {
        !self.checkers().is_empty()
    }
    /// Is the king of colour `c` attacked?
    pub fn king_attacked(&self, c: Col) -> bool {
        match self.king_sq(c) {
            Some(k) => self.attacked(k, c.other()),
            None => false,
        }
    }

    /// Men of the side to move that are absolutely pinned: the sole man between their own king and
    /// an enemy slider standing on a line that slider moves along.
    pub fn pinned(&self) -> Vec<Sq> {
        let me = self.stm;
        let mut out = vec![];
        let k = match self.king_sq(me) {
            Some(k) => k,
            None => return out,
        };
        let (f, r) = (file_of(k), rank_of(k));
        for (dirs, ortho) in [(&ROOK_D, true), (&BISHOP_D, false)] {
            for (df, dr) in dirs.iter() {
                let (mut cf, mut cr) = (f + df, r + dr);
                let mut candidate: Option<Sq> = None;
                while let Some(s) = mk(cf, cr) {
                    if let Some((kind, c)) = self.sq[s as usize] {
                        if candidate.is_none() {
                            if c == me {
                                candidate = Some(s);
                            } else {
                                break; // enemy man first: either a check or nothing; no pin
                            }
                        } else {
                            if c != me
                                && (kind == Kind::Q || (ortho && kind == Kind::R) || (!ortho && kind == Kind::B))
                            {
                                out.push(candidate.unwrap());
                            }
                            break;
                        }
                    }
                    cf += df;
                    cr += dr;
                }
            }
        }
        out.sort();
        out
    }

    fn push_pawn_moves(&self, from: Sq, to: Sq, out: &mut Vec<Mv>) {
        let r = rank_of(to);
        if r == 7 || r == 0 {
            for k in PROMOS {
                out.push(Mv::new(from, to, Some(k)));
            }
        } else {
            out.push(Mv::new(from, to, None));
        }
    }

    /// Pseudo-legal moves (castling is fully validated here, the rest only by piece movement).
    pub fn pseudo_moves(&self) -> Vec<Mv> {
        let me = self.stm;
        let mut out = vec![];
        for s in 0..64u8 {
            let (kind, c) = match self.sq[s as usize] {
                Some(x) => x,
                None => continue,
            };
            if c != me {
                continue;
            }
            let (f, r) = (file_of(s), rank_of(s));
            match kind {
                Kind::P => {
                    let dir = if me == Col::W { 1 } else { -1 };
                    let start = if me == Col::W { 1 } else { 6 };
                    if let Some(t) = mk(f, r + dir) {
                        if self.sq[t as usize].is_none() {
                            self.push_pawn_moves(s, t, &mut out);
                            if r == start {
                                if let Some(t2) = mk(f, r + 2 * dir) {
                                    if self.sq[t2 as usize].is_none() {
                                        out.push(Mv::new(s, t2, None));
                                    }
                                }
                            }
                        }
                    }
                    for df in [-1, 1] {
                        if let Some(t) = mk(f + df, r + dir) {
                            match self.sq[t as usize] {
                                Some((_, oc)) if oc != me => self.push_pawn_moves(s, t, &mut out),
                                None if self.ep == Some(t) && self.ep_victim_ok(t) => {
                                    out.push(Mv::new(s, t, None))
                                }
                                _ => {}
                            }
                        }
                    }
                }
                Kind::N | Kind::K => {
                    let ds = if kind == Kind::N { &KNIGHT_D } else { &KING_D };
                    for (df, dr) in ds.iter() {
                        if let Some(t) = mk(f + df, r + dr) {
                            match self.sq[t as usize] {
                                Some((_, oc)) if oc == me => {}
                                _ => out.push(Mv::new(s, t, None)),
                            }
                        }
                    }
                }
                Kind::B | Kind::R | Kind::Q => {
                    let mut dirs: Vec<(i32, i32)> = vec![];
                    if kind != Kind::B {
                        dirs.extend_from_slice(&ROOK_D);
                    }
                    if kind != Kind::R {
                        dirs.extend_from_slice(&BISHOP_D);
                    }
                    for (df, dr) in dirs {
                        let (mut cf, mut cr) = (f + df, r + dr);
                        while let Some(t) = mk(cf, cr) {
                            match self.sq[t as usize] {
                                None => out.push(Mv::new(s, t, None)),
                                Some((_, oc)) => {
                                    if oc != me {
                                        out.push(Mv::new(s, t, None));
                                    }
                                    break;
                                }
                            }
                            cf += df;
                            cr += dr;
                        }
                    }
                }
            }
        }
        // castling
        let (home_rank, ki, qi) = if me == Col::W { (0, WK, WQ) } else { (7, BK, BQ) };
        let e = mk(4, home_rank).unwrap();
        if self.sq[e as usize] == Some((Kind::K, me)) && !self.attacked(e, me.other()) {
            let enemy = me.other();
            if self.castle[ki] && self.sq[mk(7, home_rank).unwrap() as usize] == Some((Kind::R, me)) {
                let f1 = mk(5, home_rank).unwrap();
                let g1 = mk(6, home_rank).unwrap();
                if self.sq[f1 as usize].is_none()
                    && self.sq[g1 as usize].is_none()
                    && !self.attacked(f1, enemy)
                    && !self.attacked(g1, enemy)
                {
                    out.push(Mv::new(e, g1, None));
                }
            }
            if self.castle[qi] && self.sq[mk(0, home_rank).unwrap() as usize] == Some((Kind::R, me)) {
                let d1 = mk(3, home_rank).unwrap();
                let c1 = mk(2, home_rank).unwrap();
                let b1 = mk(1, home_rank).unwrap();
                if self.sq[d1 as usize].is_none()
                    && self.sq[c1 as usize].is_none()
                    && self.sq[b1 as usize].is_none()
                    && !self.attacked(d1, enemy)
                    && !self.attacked(c1, enemy)
                {
                    out.push(Mv::new(e, c1, None));
                }
            }
        }
        out
    }

    /// The en-passant target `t` is meaningful only if the pawn that just double-pushed stands behind it.
    fn ep_victim_ok(&self, t: Sq) -> bool {
        let me = self.stm;
        let victim_rank = if me == Col::W { 4 } else { 3 };
        let expect_target_rank = if me == Col::W { 5 } else { 2 };
        if rank_of(t) != expect_target_rank {
            return false;
        }
        match mk(file_of(t), victim_rank) {
            Some(v) => self.sq[v as usize] == Some((Kind::P, me.other())),
            None => false,
        }
    }

    pub fn is_castle(&self, m: Mv) -> bool {
        matches!(self.sq[m.from as usize], Some((Kind::K, _))) && (file_of(m.from) - file_of(m.to)).abs() == 2
    }
    pub fn is_ep(&self, m: Mv) -> bool {
        matches!(self.sq[m.from as usize], Some((Kind::P, _)))
            && file_of(m.from) != file_of(m.to)
            && self.sq[m.to as usize].is_none()
    }
    pub fn is_capture(&self, m: Mv) -> bool {
        self.sq[m.to as usize].is_some() || self.is_ep(m)
    }
    pub fn is_double_push(&self, m: Mv) -> bool {
        matches!(self.sq[m.from as usize], Some((Kind::P, _))) && (rank_of(m.from) - rank_of(m.to)).abs() == 2
    }

    /// Apply a (pseudo-)legal move. No legality test here.
    pub fn make(&self, m: Mv) -> Pos {
        let mut n = self.clone();
        let me = self.stm;
        let (kind, _) = self.sq[m.from as usize].expect("model: move from empty square");
        let capture = self.is_capture(m);
        if self.is_ep(m) {
            let victim = mk(file_of(m.to), rank_of(m.from)).unwrap();
            n.sq[victim as usize] = None;
        }
        n.sq[m.from as usize] = None;
        n.sq[m.to as usize] = Some((m.promo.unwrap_or(kind), me));
        if self.is_castle(m) {
            let r = rank_of(m.from);
            if file_of(m.to) == 6 {
                n.sq[mk(7, r).unwrap() as usize] = None;
                n.sq[mk(5, r).unwrap() as usize] = Some((Kind::R, me));
            } else {
                n.sq[mk(0, r).unwrap() as usize] = None;
                n.sq[mk(3, r).unwrap() as usize] = Some((Kind::R, me));
            }
        }
        // rights: lost when a king or rook leaves its home square or a rook is captured there
        for s in [m.from, m.to] {
            match s {
                0 => n.castle[WQ] = false,
                7 => n.castle[WK] = false,
                4 => {
                    n.castle[WK] = false;
                    n.castle[WQ] = false;
                }
                56 => n.castle[BQ] = false,
                63 => n.castle[BK] = false,
                60 => {
                    n.castle[BK] = false;
                    n.castle[BQ] = false;
                }
                _ => {}
            }
        }
        n.ep = if self.is_double_push(m) { Some((m.from + m.to) / 2) } else { None };
        n.halfmove = if kind == Kind::P || capture { 0 } else { self.halfmove + 1 };
        if me == Col::B {
            n.fullmove = self.fullmove + 1;
        }
        n.stm = me.other();
        n
    }

    pub fn legal_moves(&self) -> Vec<Mv> {
        let me = self.stm;
        let mut out: Vec<Mv> = self
            .pseudo_moves()
            .into_iter()
            .filter(|m| {
                if matches!(self.sq[m.to as usize], Some((Kind::K, _))) {
                    return false; // never capture a king (only arises on invalid inputs)
                }
                !self.make(*m).king_attacked(me)
            })
            .collect();
        out.sort();
        out
    }

    pub fn is_legal(&self, m: Mv) -> bool {
        self.legal_moves().contains(&m)
    }

    /// Why a move is not legal, in words (for violation reports).
    pub fn explain(&self, m: Mv) -> String {
        if self.sq[m.from as usize].map(|x| x.1) != Some(self.stm) {
            return "no man of the side to move on the source square".into();
        }
        if !self.pseudo_moves().contains(&m) {
            return "not a movement of that man (or castling conditions unmet)".into();
        }
        let n = self.make(m);
        if n.king_attacked(self.stm) {
            let k = n.king_sq(self.stm).unwrap();
            let a = n.attackers(k, self.stm.other());
            return format!(
                "leaves own king on {} attacked by {}",
                sq_name(k),
                a.iter().map(|s| sq_name(*s)).collect::<Vec<_>>().join(",")
            );
        }
        "legal".into()
    }

    pub fn status(&self) -> Status {
        if !self.legal_moves().is_empty() {
            Status::Ongoing
        } else if self.in_check() {
            Status::Checkmate
        } else {
            Status::Stalemate
        }
    }

    /// Is there an enemy pawn beside the just-pushed pawn (what the library records as "en-passant state")?
    pub fn ep_pawn_beside(&self) -> bool {
        match self.ep {
            None => false,
            Some(t) => {
                if !self.ep_victim_ok(t) {
                    return false;
                }
                let vr = if self.stm == Col::W { 4 } else { 3 };
                [-1, 1].iter().any(|df| match mk(file_of(t) + df, vr) {
                    Some(s) => self.sq[s as usize] == Some((Kind::P, self.stm)),
                    None => false,
                })
            }
        }
    }
    /// Is an en-passant capture actually legal now?
    pub fn ep_capture_legal(&self) -> bool {
        self.legal_moves().iter().any(|m| self.is_ep(*m))
    }
    /// Square of the pawn that just double-pushed (the library's `en_passant()` names this square).
    pub fn ep_pawn_sq(&self) -> Option<Sq> {
        self.ep.map(|t| if self.stm == Col::W { t - 8 } else { t + 8 })
    }

    // ---------------------------------------------------------------------------------- FEN
    pub fn placement_field(&self) -> String {
        let mut s = String::new();
        for r in (0..8).rev() {
            let mut run = 0;
            for f in 0..8 {
                match self.sq[(r * 8 + f) as usize] {
                    None => run += 1,
                    Some((k, c)) => {
                        if run > 0 {
                            write!(s, "{}", run).unwrap();
                            run = 0;
                        }
                        s.push(if c == Col::W { kind_letter_upper(k) } else { kind_letter_lower(k) });
                    }
                }
            }
            if run > 0 {
                write!(s, "{}", run).unwrap();
            }
            if r > 0 {
                s.push('/');
            }
        }
        s
    }
    pub fn castle_field(&self) -> String {
        let mut s = String::new();
        for (i, ch) in ['K', 'Q', 'k', 'q'].iter().enumerate() {
            if self.castle[i] {
                s.push(*ch);
            }
        }
        if s.is_empty() {
            s.push('-');
        }
        s
    }
    /// Standard FEN, en-passant target written after every double push (X-FEN would omit it when
    /// no capture is possible; the classic standard does not).
    pub fn fen(&self) -> String {
        format!(
            "{} {} {} {} {} {}",
            self.placement_field(),
            if self.stm == Col::W { "w" } else { "b" },
            self.castle_field(),
            self.ep.map(sq_name).unwrap_or_else(|| "-".into()),
            self.halfmove,
            self.fullmove
        )
    }
    /// FEN with the en-passant field written only when a pawn stands beside (still a standard FEN).
    pub fn fen_ep_if_beside(&self) -> String {
        let mut p = self.clone();
        if !p.ep_pawn_beside() {
            p.ep = None;
        }
        p.fen()
    }

    /// Strict reader for standard FEN (used on model-written and corpus text; returns None on anything odd).
    pub fn from_fen(t: &str) -> Option<Pos> {
        let fields: Vec<&str> = t.split(' ').collect();
        if fields.len() != 6 && fields.len() != 4 {
            return None;
        }
        let mut p = Pos::empty();
        let ranks: Vec<&str> = fields[0].split('/').collect();
        if ranks.len() != 8 {
            return None;
        }
        for (i, rk) in ranks.iter().enumerate() {
            let r = 7 - i as i32;
            let mut f = 0i32;
            for ch in rk.chars() {
                if let Some(d) = ch.to_digit(10) {
                    if d == 0 || d > 8 {
                        return None;
                    }
                    f += d as i32;
                } else {
                    let c = if ch.is_ascii_uppercase() { Col::W } else { Col::B };
                    let k = match ch.to_ascii_lowercase() {
                        'p' => Kind::P,
                        'n' => Kind::N,
                        'b' => Kind::B,
                        'r' => Kind::R,
                        'q' => Kind::Q,
                        'k' => Kind::K,
                        _ => return None,
                    };
                    let s = mk(f, r)?;
                    p.sq[s as usize] = Some((k, c));
                    f += 1;
                }
                if f > 8 {
                    return None;
                }
            }
            if f != 8 {
                return None;
            }
        }
        p.stm = match fields[1] {
            "w" => Col::W,
            "b" => Col::B,
            _ => return None,
        };
        if fields[2] != "-" {
            for ch in fields[2].chars() {
                match ch {
                    'K' => p.castle[WK] = true,
                    'Q' => p.castle[WQ] = true,
                    'k' => p.castle[BK] = true,
                    'q' => p.castle[BQ] = true,
                    _ => return None,
                }
            }
        }
        p.ep = if fields[3] == "-" { None } else { Some(parse_sq(fields[3])?) };
        if fields.len() == 6 {
            p.halfmove = fields[4].parse().ok()?;
            p.fullmove = fields[5].parse().ok()?;
        }
        Some(p)
    }

    // ---------------------------------------------------------------------------------- validity
    /// The validity clause of property C01 (and the acceptance clause of C07).
    pub fn validity_error(&self) -> Option<&'static str> {
        for c in [Col::W, Col::B] {
            if self.count(Kind::K, c) != 1 {
                return Some("not exactly one king per side");
            }
        }
        if self.king_attacked(self.stm.other()) {
            return Some("side not to move is in check");
        }
        let homes = [(WK, 4u8, 7u8, Col::W), (WQ, 4, 0, Col::W), (BK, 60, 63, Col::B), (BQ, 60, 56, Col::B)];
        for (i, ks, rs, c) in homes {
            if self.castle[i]
                && (self.sq[ks as usize] != Some((Kind::K, c)) || self.sq[rs as usize] != Some((Kind::R, c)))
            {
                return Some("castling right without king and rook at home");
            }
        }
        None
    }
    /// The stricter clause of C01's quantifier ("valid chess position").
    pub fn strict_validity_error(&self) -> Option<&'static str> {
        if let Some(e) = self.validity_error() {
            return Some(e);
        }
        for c in [Col::W, Col::B] {
            if self.men(c) > 16 {
                return Some("more than 16 men");
            }
            if self.count(Kind::P, c) > 8 {
                return Some("more than 8 pawns");
            }
        }
        for f in 0..8 {
            for r in [0, 7] {
                if matches!(self.sq[(r * 8 + f) as usize], Some((Kind::P, _))) {
                    return Some("pawn on first or last rank");
                }
            }
        }
        if let Some(t) = self.ep {
            // only directly after a double push: victim behind the target, origin and target squares empty
            if !self.ep_victim_ok(t) {
                return Some("en-passant target without the pushed pawn");
            }
            let origin = if self.stm == Col::W { t + 8 } else { t - 8 };
            if self.sq[t as usize].is_some() || self.sq[origin as usize].is_some() {
                return Some("en-passant origin or passed-over square occupied");
            }
        }
        None
    }

    // ---------------------------------------------------------------------------------- keys
    /// Bytes identifying (placement, side, castling rights); en-passant is appended by the caller
    /// in whichever flavour it needs.
    pub fn core_key(&self) -> Vec<u8> {
        let mut v = Vec::with_capacity(70);
        for s in 0..64 {
            v.push(match self.sq[s] {
                None => 0,
                Some((k, c)) => 1 + (k as u8) + 6 * (c.idx() as u8),
            });
        }
        v.push(self.stm.idx() as u8);
        let mut cb = 0u8;
        for i in 0..4 {
            if self.castle[i] {
                cb |= 1 << i;
            }
        }
        v.push(cb);
        v
    }
    /// Key with "pawn beside" en-passant flavour (what the library's == compares).
    pub fn key_beside(&self) -> Vec<u8> {
        let mut v = self.core_key();
        v.push(if self.ep_pawn_beside() { 1 + file_of(self.ep.unwrap()) as u8 } else { 0 });
        v
    }
    /// Key with "capture actually legal" flavour (FIDE 9.2.3).
    pub fn key_legal(&self) -> Vec<u8> {
        let mut v = self.core_key();
        v.push(if self.ep_capture_legal() { 1 + file_of(self.ep.unwrap()) as u8 } else { 0 });
        v
    }

    // ---------------------------------------------------------------------------------- mirrors
    /// Swap colours and flip top to bottom.
    pub fn mirror_colour(&self) -> Pos {
        let mut n = Pos::empty();
        for s in 0..64u8 {
            if let Some((k, c)) = self.sq[s as usize] {
                n.sq[(s ^ 56) as usize] = Some((k, c.other()));
            }
        }
        n.stm = self.stm.other();
        n.castle = [self.castle[BK], self.castle[BQ], self.castle[WK], self.castle[WQ]];
        n.ep = self.ep.map(|t| t ^ 56);
        n.halfmove = self.halfmove;
        n.fullmove = self.fullmove;
        n
    }
    /// Flip left to right (only meaningful without castling rights).
    pub fn mirror_file(&self) -> Pos {
        let mut n = Pos::empty();
        for s in 0..64u8 {
            n.sq[(s ^ 7) as usize] = self.sq[s as usize];
        }
        n.stm = self.stm;
        n.castle = [false; 4];
        n.ep = self.ep.map(|t| t ^ 7);
        n.halfmove = self.halfmove;
        n.fullmove = self.fullmove;
        n
    }

    pub fn perft(&self, depth: u32) -> u64 {
        if depth == 0 {
            return 1;
        }
        let ms = self.legal_moves();
        if depth == 1 {
            return ms.len() as u64;
        }
        ms.iter().map(|m| self.make(*m).perft(depth - 1)).sum()
    }
}

pub fn mirror_mv_colour(m: Mv) -> Mv {
    Mv::new(m.from ^ 56, m.to ^ 56, m.promo)
}
pub fn mirror_mv_file(m: Mv) -> Mv {
    Mv::new(m.from ^ 7, m.to ^ 7, m.promo)
}

// ======================================================================================= SAN

#[derive(Copy, Clone, PartialEq, Eq, Debug)]
pub enum Mark {
    None,
    Check,
    Mate,
}

/// A structured SAN text: what the writer intended, kept beside the rendered string so that the
/// rejection oracle never needs a SAN parser of its own.
#[derive(Clone, PartialEq, Eq, Debug)]
pub struct San {
    pub castle: Option<bool>, // Some(true) = king side
    pub piece: Kind,
    pub file_hint: Option<i32>,
    pub rank_hint: Option<i32>,
    pub takes: bool,
    pub dest: Sq,
    pub promo: Option<Kind>,
    pub mark: Mark,
    pub ep_suffix: bool,
}

impl San {
    pub fn text(&self) -> String {
        let mut s = String::new();
        match self.castle {
            Some(true) => s.push_str("O-O"),
            Some(false) => s.push_str("O-O-O"),
            None => {
                if self.piece != Kind::P {
                    s.push(kind_letter_upper(self.piece));
                }
                if let Some(f) = self.file_hint {
                    s.push((b'a' + f as u8) as char);
                }
                if let Some(r) = self.rank_hint {
                    s.push((b'1' + r as u8) as char);
                }
                if self.takes {
                    s.push('x');
                }
                s.push_str(&sq_name(self.dest));
                if let Some(k) = self.promo {
                    s.push(kind_letter_upper(k));
                }
            }
        }
        match self.mark {
            Mark::None => {}
            Mark::Check => s.push('+'),
            Mark::Mate => s.push('#'),
        }
        if self.ep_suffix {
            s.push_str(" e.p.");
        }
        s
    }

    /// Legal moves of `p` that fit piece, hints, destination and promotion of this text.
    pub fn matches(&self, p: &Pos) -> Vec<Mv> {
        let legal = p.legal_moves();
        if let Some(kside) = self.castle {
            return legal
                .into_iter()
                .filter(|m| p.is_castle(*m) && (file_of(m.to) == 6) == kside)
                .collect();
        }
        legal
            .into_iter()
            .filter(|m| {
                !p.is_castle(*m) || self.piece == Kind::K // a king move text can denote castling squares too
            })
            .filter(|m| p.sq[m.from as usize].map(|x| x.0) == Some(self.piece))
            .filter(|m| self.file_hint.map_or(true, |f| file_of(m.from) == f))
            .filter(|m| self.rank_hint.map_or(true, |r| rank_of(m.from) == r))
            .filter(|m| m.to == self.dest && m.promo == self.promo)
            .collect()
    }
}

/// The correct check mark for move `m` in `p`.
pub fn correct_mark(p: &Pos, m: Mv) -> Mark {
    let n = p.make(m);
    if !n.in_check() {
        Mark::None
    } else if n.legal_moves().is_empty() {
        Mark::Mate
    } else {
        Mark::Check
    }
}

/// All admissible spellings of legal move `m` in position `p` (property C12): piece letter, the
/// minimal or any fuller correct disambiguation, 'x' on captures including en passant, destination,
/// promotion letter without '=', optional correct '+' / '#', optional " e.p.", castling O-O / O-O-O.
pub fn san_spellings(p: &Pos, m: Mv) -> Vec<San> {
    let legal = p.legal_moves();
    debug_assert!(legal.contains(&m));
    let mark = correct_mark(p, m);
    let marks: Vec<Mark> = if mark == Mark::None { vec![Mark::None] } else { vec![Mark::None, mark] };
    let mut out = vec![];
    if p.is_castle(m) {
        for mk_ in &marks {
            out.push(San {
                castle: Some(file_of(m.to) == 6),
                piece: Kind::K,
                file_hint: None,
                rank_hint: None,
                takes: false,
                dest: 0,
                promo: None,
                mark: *mk_,
                ep_suffix: false,
            });
        }
        return out;
    }
    let (kind, _) = p.sq[m.from as usize].unwrap();
    let capture = p.is_capture(m);
    let is_ep = p.is_ep(m);
    let mut hints: Vec<(Option<i32>, Option<i32>)> = vec![];
    if kind == Kind::P {
        if capture {
            hints.push((Some(file_of(m.from)), None)); // exd5: the file is mandatory
            hints.push((Some(file_of(m.from)), Some(rank_of(m.from)))); // e4xd5: the fuller form
        } else {
            hints.push((None, None));
        }
    } else {
        let others: Vec<Mv> = legal
            .iter()
            .filter(|o| o.from != m.from && o.to == m.to && p.sq[o.from as usize].map(|x| x.0) == Some(kind))
            .cloned()
            .collect();
        if others.is_empty() {
            hints.push((None, None));
        }
        if !others.iter().any(|o| file_of(o.from) == file_of(m.from)) {
            hints.push((Some(file_of(m.from)), None));
        }
        if !others.iter().any(|o| rank_of(o.from) == rank_of(m.from)) {
            hints.push((None, Some(rank_of(m.from))));
        }
        hints.push((Some(file_of(m.from)), Some(rank_of(m.from))));
    }
    let eps: Vec<bool> = if is_ep { vec![false, true] } else { vec![false] };
    for (fh, rh) in hints {
        for mk_ in &marks {
            for e in &eps {
                out.push(San {
                    castle: None,
                    piece: kind,
                    file_hint: fh,
                    rank_hint: rh,
                    takes: capture,
                    dest: m.to,
                    promo: m.promo,
                    mark: *mk_,
                    ep_suffix: *e,
                });
            }
        }
    }
    out
}

/// The minimal (canonical) spelling.
pub fn san_minimal(p: &Pos, m: Mv) -> San {
    let mut all = san_spellings(p, m);
    // canonical: fewest hint characters, correct mark, no e.p. suffix
    let mark = correct_mark(p, m);
    all.retain(|s| s.mark == mark && !s.ep_suffix);
    all.sort_by_key(|s| (s.file_hint.is_some() as u8 + s.rank_hint.is_some() as u8, s.rank_hint.is_some()));
    all.remove(0)
}

// ======================================================================================= Game model

#[derive(Copy, Clone, PartialEq, Eq, Debug)]
pub enum Act {
    Move(Mv),
    Offer(Col),
    Accept,
    Declare,
    Resign(Col),
}

#[derive(Copy, Clone, PartialEq, Eq, Debug)]
pub enum Outcome {
    WhiteCheckmates,
    WhiteResigns,
    BlackCheckmates,
    BlackResigns,
    Stalemate,
    DrawAccepted,
    DrawDeclared,
}

#[derive(Clone, Debug)]
pub struct GameModel {
    pub start: Pos,
    pub log: Vec<Act>,
    pub pos: Pos,
    /// (key_beside, key_legal) of every position of the game so far (start included)
    pub history: Vec<(Vec<u8>, Vec<u8>)>,
    /// half-moves since the last pawn move or capture, counted from the start position (= 0 there)
    pub clock: u32,
    /// did a castling right disappear inside the current no-pawn-move/no-capture window?
    pub rights_changed_in_window: bool,
}

impl GameModel {
    pub fn new(start: Pos) -> GameModel {
        GameModel {
            pos: start.clone(),
            history: vec![(start.key_beside(), start.key_legal())],
            start,
            log: vec![],
            clock: 0,
            rights_changed_in_window: false,
        }
    }

    pub fn result(&self) -> Option<Outcome> {
        match self.pos.status() {
            Status::Checkmate => {
                Some(if self.pos.stm == Col::W { Outcome::BlackCheckmates } else { Outcome::WhiteCheckmates })
            }
            Status::Stalemate => Some(Outcome::Stalemate),
            Status::Ongoing => match self.log.last() {
                Some(Act::Accept) => Some(Outcome::DrawAccepted),
                Some(Act::Declare) => Some(Outcome::DrawDeclared),
                Some(Act::Resign(Col::W)) => Some(Outcome::WhiteResigns),
                Some(Act::Resign(Col::B)) => Some(Outcome::BlackResigns),
                _ => None,
            },
        }
    }
    pub fn open(&self) -> bool {
        self.result().is_none()
    }

    /// The accept rule exactly as property C10 states it.
    pub fn accept_allowed(&self) -> bool {
        if !self.open() {
            return false;
        }
        let n = self.log.len();
        if n >= 1 {
            if let Act::Offer(_) = self.log[n - 1] {
                return true;
            }
        }
        if n >= 2 {
            if let (Act::Offer(c), Act::Move(_)) = (self.log[n - 2], self.log[n - 1]) {
                // the latest action is a move whose mover offered a draw immediately before it:
                // the mover of the latest move is the side NOT to move now
                return c == self.pos.stm.other();
            }
        }
        false
    }

    pub fn occurrences(&self, legal_flavour: bool) -> usize {
        let last = self.history.last().unwrap();
        self.history.iter().filter(|h| if legal_flavour { h.1 == last.1 } else { h.0 == last.0 }).count()
    }

    /// (claimable under "pawn beside" en-passant reading, claimable under "capture legal" reading)
    pub fn claimable(&self) -> (bool, bool) {
        if !self.open() {
            return (false, false);
        }
        let fifty = self.clock >= 100;
        (fifty || self.occurrences(false) >= 3, fifty || self.occurrences(true) >= 3)
    }

    /// Would this action be accepted under the model's rules? (For Offer/Resign: whenever open.)
    pub fn allowed(&self, a: Act) -> bool {
        match a {
            Act::Move(m) => self.open() && self.pos.is_legal(m),
            Act::Offer(_) | Act::Resign(_) => self.open(),
            Act::Accept => self.accept_allowed(),
            Act::Declare => self.claimable().0,
        }
    }

    /// Record an action as accepted (the caller decides acceptance from the library's answer after
    /// the oracles have compared it with `allowed`).
    pub fn push(&mut self, a: Act) {
        if let Act::Move(m) = a {
            let before = self.pos.clone();
            let irreversible = before.is_capture(m) || matches!(before.sq[m.from as usize], Some((Kind::P, _)));
            self.pos = before.make(m);
            if irreversible {
                self.clock = 0;
                self.rights_changed_in_window = false;
            } else {
                self.clock += 1;
                if self.pos.castle != before.castle {
                    self.rights_changed_in_window = true;
                }
            }
            self.history.push((self.pos.key_beside(), self.pos.key_legal()));
        }
        self.log.push(a);
    }

    /// Rebuild from a prefix of the log (crash recovery truncation).
    pub fn truncated(&self, n: usize) -> GameModel {
        let mut g = GameModel::new(self.start.clone());
        for a in self.log.iter().take(n) {
            g.push(*a);
        }
        g
    }
}
