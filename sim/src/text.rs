//! Text surfaces: SAN (C12), coordinate text and squares (C13), FEN / builder validation (C07),
//! sibling pairs (C08 / C09). All of these run the real parsers under catch_unwind.

use crate::conv::*;
use crate::exec::*;
use crate::model::*;
use crate::oracle::*;
use crate::rng::{fp64, Fnv};
use chess::{Board, BoardBuilder, ChessMove, Game, MoveGen, Square};
use std::convert::TryFrom;
use std::str::FromStr;

impl San {
    /// Recogniser for the documented grammar, parsing from the right:
    /// [NBRQK]? [a-h]? [1-8]? x? <dest square> [NBRQ]? [+#]? (" e.p.")?   |  O-O(-O)? [+#]?
    pub fn parse(text: &str) -> Option<San> {
        if !text.is_ascii() {
            return None;
        }
        let mut t = text;
        let mut ep_suffix = false;
        if let Some(s) = t.strip_suffix(" e.p.") {
            ep_suffix = true;
            t = s;
        }
        let mut mark = Mark::None;
        if let Some(s) = t.strip_suffix('+') {
            mark = Mark::Check;
            t = s;
        } else if let Some(s) = t.strip_suffix('#') {
            mark = Mark::Mate;
            t = s;
        }
        if t == "O-O" || t == "O-O-O" {
            if ep_suffix {
                return None;
            }
            return Some(San {
                castle: Some(t == "O-O"),
                piece: Kind::K,
                file_hint: None,
                rank_hint: None,
                takes: false,
                dest: 0,
                promo: None,
                mark,
                ep_suffix: false,
            });
        }
        let mut b: Vec<u8> = t.bytes().collect();
        let mut promo = None;
        if let Some(&last) = b.last() {
            let k = match last {
                b'N' => Some(Kind::N),
                b'B' => Some(Kind::B),
                b'R' => Some(Kind::R),
                b'Q' => Some(Kind::Q),
                _ => None,
            };
            if k.is_some() && b.len() >= 3 {
                promo = k;
                b.pop();
            }
        }
        if b.len() < 2 {
            return None;
        }
        let dest = parse_sq(std::str::from_utf8(&b[b.len() - 2..]).ok()?)?;
        b.truncate(b.len() - 2);
        let mut takes = false;
        if b.last() == Some(&b'x') {
            takes = true;
            b.pop();
        }
        let mut rank_hint = None;
        if let Some(&c) = b.last() {
            if (b'1'..=b'8').contains(&c) {
                rank_hint = Some((c - b'1') as i32);
                b.pop();
            }
        }
        let mut file_hint = None;
        if let Some(&c) = b.last() {
            if (b'a'..=b'h').contains(&c) {
                file_hint = Some((c - b'a') as i32);
                b.pop();
            }
        }
        let mut piece = Kind::P;
        if let Some(&c) = b.last() {
            piece = match c {
                b'N' => Kind::N,
                b'B' => Kind::B,
                b'R' => Kind::R,
                b'Q' => Kind::Q,
                b'K' => Kind::K,
                _ => return None,
            };
            b.pop();
        }
        if !b.is_empty() {
            return None;
        }
        Some(San { castle: None, piece, file_hint, rank_hint, takes, dest, promo, mark, ep_suffix })
    }

    /// Is this spelling one the property makes a definite statement about, given that it fits exactly `m`?
    pub fn clean_for(&self, p: &Pos, m: Mv) -> bool {
        if self.castle.is_some() {
            return p.is_castle(m) && (self.mark == Mark::None || self.mark == correct_mark(p, m));
        }
        if p.is_castle(m) {
            return false; // "Kg1" for castling: not a documented spelling
        }
        let cap = p.is_capture(m);
        if self.takes != cap {
            return false;
        }
        if self.mark != Mark::None && self.mark != correct_mark(p, m) {
            return false;
        }
        if self.ep_suffix && !p.is_ep(m) {
            return false;
        }
        if self.piece == Kind::P {
            let ok = if cap {
                self.file_hint.is_some()
            } else {
                self.file_hint.is_some() == self.rank_hint.is_some()
            };
            if !ok {
                return false;
            }
        }
        true
    }
}

fn spelling_class(spec: &San, p: &Pos, m: Mv) -> &'static str {
    if spec.castle.is_some() {
        return if spec.mark != Mark::None { "castling_with_check_mark" } else { "castling" };
    }
    if p.is_ep(m) {
        return if spec.ep_suffix { "en_passant_with_suffix" } else { "en_passant_without_suffix" };
    }
    if m.promo.is_some() {
        return "promotion";
    }
    match (spec.file_hint.is_some(), spec.rank_hint.is_some(), spec.piece == Kind::P) {
        (true, true, _) => "full_square_disambiguation",
        (false, true, _) => "rank_disambiguation",
        (true, false, false) => "file_disambiguation",
        (true, false, true) => "pawn_capture",
        _ => {
            if spec.mark != Mark::None {
                "with_check_mark"
            } else {
                "plain"
            }
        }
    }
}

impl Exec {
    /// Decode `text` as SAN in (board, pos) under the C12 oracles. Returns the library's answer.
    pub fn san_decode(
        &mut self,
        board: &Board,
        pos: &Pos,
        text: &str,
        intended: Option<&San>,
    ) -> Result<Option<ChessMove>, Violation> {
        let r = guard(|| ChessMove::from_san(board, text));
        let armed = self.on(12);
        let r = match r {
            Err(p) => {
                if armed {
                    return Err(viol("C12", "totality/panic", format!("from_san({}, {:?}) panicked: {}", pos.fen(), text, p)));
                }
                return Ok(None);
            }
            Ok(r) => r,
        };
        if !armed {
            return Ok(r.ok());
        }
        let legal = pos.legal_moves();
        let got: Option<Mv> = r.as_ref().ok().map(|m| mv_from_lib(*m));
        if let Some(v) = got {
            if !legal.contains(&v) {
                return Err(viol(
                    "C12",
                    "totality/returned_illegal_move",
                    format!("from_san({}, {:?}) = {} which is not legal: {}", pos.fen(), text, v.uci(), pos.explain(v)),
                ));
            }
        }
        let spec = San::parse(text);
        if let Some(i) = intended {
            if spec.as_ref() != Some(i) && i.text() == text {
                panic!("HARNESS: model SAN recogniser disagrees with the model SAN writer on {:?}", text);
            }
        }
        let mut f = Fnv::new();
        f.bytes(&pos.key_beside());
        f.str(text);
        match &spec {
            None => {
                self.eval(f.0, true);
                self.stats.cnt("reach.san_malformed_text");
                if let Some(v) = got {
                    let has_good_prefix = (1..text.len())
                        .filter(|i| text.is_char_boundary(*i))
                        .any(|i| San::parse(&text[..i]).map_or(false, |s| s.matches(pos).len() == 1));
                    return Err(viol(
                        "C12",
                        if has_good_prefix { "trailing_garbage/accepted" } else { "malformed/accepted" },
                        format!("from_san({}, {:?}) = {} although the text is not in the documented grammar", pos.fen(), text, v.uci()),
                    ));
                }
            }
            Some(spec) => {
                let ms = spec.matches(pos);
                let fancy = spec.castle.is_some()
                    || spec.file_hint.is_some()
                    || spec.rank_hint.is_some()
                    || spec.takes
                    || spec.promo.is_some()
                    || spec.mark != Mark::None
                    || spec.ep_suffix
                    || intended.is_none();
                self.eval(f.0, fancy);
                match ms.len() {
                    0 => {
                        self.stats.cnt("reach.san_no_match");
                        if let Some(v) = got {
                            return Err(viol(
                                "C12",
                                "rejection/accepted_text_denoting_no_move",
                                format!("from_san({}, {:?}) = {} but no legal move fits the text", pos.fen(), text, v.uci()),
                            ));
                        }
                    }
                    1 => {
                        let m = ms[0];
                        if let Some(v) = got {
                            if v != m {
                                return Err(viol(
                                    "C12",
                                    "roundtrip/wrong_move",
                                    format!("from_san({}, {:?}) = {} but the text denotes {}", pos.fen(), text, v.uci(), m.uci()),
                                ));
                            }
                        }
                        if spec.castle.is_none() && spec.takes && !pos.is_capture(m) {
                            // a capture mark on a move that captures nothing: the text denotes no legal move
                            self.stats.cnt("reach.san_capture_mark_on_quiet_move");
                            if got.is_some() {
                                return Err(viol(
                                    "C12",
                                    "rejection/accepted_capture_mark_on_quiet_move",
                                    format!("from_san({}, {:?}) = {} but that move captures nothing", pos.fen(), text, m.uci()),
                                ));
                            }
                        }
                        if spec.clean_for(pos, m) {
                            self.stats.cnt_dyn(format!("san.{}", spelling_class(spec, pos, m)));
                            if got.is_none() {
                                return Err(viol(
                                    "C12",
                                    &format!("roundtrip/rejected/{}", spelling_class(spec, pos, m)),
                                    format!("from_san({}, {:?}) rejected; it denotes {}", pos.fen(), text, m.uci()),
                                ));
                            }
                        } else {
                            self.stats.cnt("na.san_spelling_outside_statement");
                        }
                    }
                    _ => {
                        self.stats.cnt("reach.san_ambiguous");
                        if let Some(v) = got {
                            return Err(viol(
                                "C12",
                                "rejection/accepted_ambiguous",
                                format!(
                                    "from_san({}, {:?}) = {} but {} legal moves fit: {}",
                                    pos.fen(),
                                    text,
                                    v.uci(),
                                    ms.len(),
                                    ms.iter().map(|m| m.uci()).collect::<Vec<_>>().join(",")
                                ),
                            ));
                        }
                    }
                }
            }
        }
        Ok(r.ok())
    }

    /// Every legal move of the position in every admissible spelling must parse back to that move.
    pub fn san_all(&mut self, board: &Board, pos: &Pos) -> Result<(), Violation> {
        for m in pos.legal_moves() {
            for s in san_spellings(pos, m) {
                let text = s.text();
                let r = self.san_decode(board, pos, &text, Some(&s))?;
                debug_assert!(r.map(mv_from_lib) == Some(m));
            }
        }
        self.stats.cnt("reach.san_all_spellings_positions");
        Ok(())
    }

    pub fn decode_san_op(&mut self, fen: &str, text: &str) -> Result<Flow, Violation> {
        let pos = match Pos::from_fen(fen) {
            Some(p) if p.strict_validity_error().is_none() => p,
            _ => return Ok(Flow::Go),
        };
        let board = match guard(|| Board::from_str(fen)) {
            Ok(Ok(b)) => b,
            _ => return Ok(Flow::ForeignDivergence(format!("valid FEN rejected: {}", fen))),
        };
        self.san_decode(&board, &pos, text, None)?;
        Ok(Flow::Go)
    }

    pub fn decode_uci_op(&mut self, text: &str) -> Result<Flow, Violation> {
        if !self.on(13) {
            return Ok(Flow::Go);
        }
        let r = guard(|| ChessMove::from_str(text)).map_err(|p| viol("C13", "totality/panic/move", format!("{:?}: {}", text, p)))?;
        let well = Mv::parse_uci(text);
        self.eval(fp64(text.as_bytes()), well.is_none() || well.map_or(false, |m| m.promo.is_some()));
        match (&r, well) {
            (Ok(v), _) => {
                let back = format!("{}", v);
                if !text.starts_with(&back) {
                    return Err(viol("C13", "prefix/rendering_not_prefix_of_input", format!("{:?} parsed to {:?}", text, back)));
                }
                if let Some(w) = well {
                    if mv_from_lib(*v) != w || back != text {
                        return Err(viol("C13", "roundtrip/move_not_identical", format!("{:?} parsed to {:?}", text, back)));
                    }
                    self.stats.cnt_dyn(format!("mv.{}", w.uci()));
                }
            }
            (Err(_), Some(w)) => {
                return Err(viol("C13", "roundtrip/own_text_rejected", format!("{:?} (a well-formed move {}) rejected", text, w.uci())));
            }
            (Err(_), None) => {}
        }
        // every move value renders as source, destination, optional lower-case promotion letter
        if let Some(w) = well {
            let rendered = format!("{}", lib_mv(w));
            if rendered != w.uci() {
                return Err(viol("C13", "format/move_text", format!("library renders {:?}, expected {:?}", rendered, w.uci())));
            }
        }
        Ok(Flow::Go)
    }

    pub fn decode_square_op(&mut self, text: &str) -> Result<Flow, Violation> {
        if !self.on(13) {
            return Ok(Flow::Go);
        }
        let r = guard(|| Square::from_str(text)).map_err(|p| viol("C13", "totality/panic/square", format!("{:?}: {}", text, p)))?;
        let well = parse_sq(text);
        self.eval(fp64(text.as_bytes()) ^ 0x5151, well.is_none());
        #[allow(deprecated)]
        {
            let r2 = guard(|| Square::from_string(text.to_string())).map_err(|p| viol("C13", "totality/panic/square_from_string", format!("{:?}: {}", text, p)))?;
            if r2 != r.as_ref().ok().cloned() {
                return Err(viol("C13", "consistency/from_string_differs_from_from_str", format!("{:?}", text)));
            }
        }
        match (&r, well) {
            (Ok(v), _) => {
                let back = format!("{}", v);
                if !text.starts_with(&back) {
                    return Err(viol("C13", "prefix/square_rendering_not_prefix_of_input", format!("{:?} parsed to {:?}", text, back)));
                }
                if let Some(w) = well {
                    if sq_from_lib(*v) != w || back != text {
                        return Err(viol("C13", "roundtrip/square_not_identical", format!("{:?} parsed to {:?}", text, back)));
                    }
                    self.stats.cnt_dyn(format!("sq.{}", text));
                }
            }
            (Err(_), Some(_)) => {
                return Err(viol("C13", "roundtrip/square_own_text_rejected", format!("{:?} rejected", text)));
            }
            (Err(_), None) => {}
        }
        if let Some(w) = well {
            let rendered = format!("{}", lib_sq(w));
            if rendered != sq_name(w) {
                return Err(viol("C13", "format/square_text", format!("library renders {:?}, expected {:?}", rendered, sq_name(w))));
            }
        }
        Ok(Flow::Go)
    }

    // ------------------------------------------------------------------------------ C07

    fn soundness(&mut self, b: &Board, how: &str, src: &str) -> Result<(), Violation> {
        let o = observe(b);
        let q = pos_from_observed(&o);
        for c in [Col::W, Col::B] {
            if q.count(Kind::K, c) != 1 {
                return Err(viol("C07", &format!("soundness/{}/kings", how), format!("accepted {} with {} {:?} kings", src, q.count(Kind::K, c), c)));
            }
        }
        if q.king_attacked(q.stm.other()) {
            return Err(viol("C07", &format!("soundness/{}/side_not_to_move_in_check", how), format!("accepted {}", src)));
        }
        let homes = [(WK, 4u8, 7u8, Col::W), (WQ, 4, 0, Col::W), (BK, 60, 63, Col::B), (BQ, 60, 56, Col::B)];
        for (i, ks, rs, c) in homes {
            if o.castle[i] && (o.sq[ks as usize] != Some((Kind::K, c)) || o.sq[rs as usize] != Some((Kind::R, c))) {
                return Err(viol("C07", &format!("soundness/{}/castling_right_unbacked", how), format!("accepted {}", src)));
            }
        }
        if let Some(s) = o.ep_pawn {
            let want_rank = if o.stm == Col::W { 4 } else { 3 };
            if rank_of(s) != want_rank || o.sq[s as usize] != Some((Kind::P, o.stm.other())) {
                return Err(viol(
                    "C07",
                    &format!("soundness/{}/en_passant_without_pawn_on_double_push_rank", how),
                    format!("accepted {} with en_passant() = {}", src, sq_name(s)),
                ));
            }
        }
        Ok(())
    }

    /// Everything the property says an accepted position can be handed to.
    fn safe_use(&mut self, b: &Board, src: &str) -> Result<(), Violation> {
        let ob = observe(b);
        let men_w = ob.sq.iter().filter(|x| matches!(x, Some((_, Col::W)))).count();
        let men_b = ob.sq.iter().filter(|x| matches!(x, Some((_, Col::B)))).count();
        let disc = if men_w.max(men_b) > 16 { "men_of_one_side>16" } else { "ordinary_material" };
        let bb = *b;
        let r = guard(move || {
            let g = MoveGen::new_legal(&bb);
            let n = g.len();
            let moves: Vec<ChessMove> = g.collect();
            let _ = n;
            let _ = bb.status();
            let _ = bb.is_sane();
            let _ = bb.to_string();
            let _ = bb.get_hash();
            let _ = bb.null_move();
            for (i, m) in moves.iter().enumerate() {
                let _ = bb.legal(*m);
                let nb = bb.make_move_new(*m);
                let _ = nb.to_string();
                let _ = nb.status();
                if i < 6 {
                    for m2 in MoveGen::new_legal(&nb) {
                        let nn = nb.make_move_new(m2);
                        let _ = MoveGen::new_legal(&nn).len();
                    }
                } else {
                    let _ = MoveGen::new_legal(&nb).len();
                }
            }
            // a few arbitrary triples to the legality query
            for k in 0..8u8 {
                let m = ChessMove::new(lib_sq(k * 7), lib_sq(63 - k * 5), None);
                let _ = bb.legal(m);
            }
            moves.len()
        });
        match r {
            Ok(_) => Ok(()),
            Err(p) => {
                let what = if p.contains("CAPACITY") || p.contains("capacity") { "movelist_overflow" } else { "panic" };
                Err(viol("C07", &format!("accepted_is_safe/{}/{}", what, disc), format!("accepted {}: {}", src, p)))
            }
        }
    }

    pub fn validate_text(&mut self, text: &str) -> Result<Flow, Violation> {
        if !self.on(7) {
            return Ok(Flow::Go);
        }
        let model = Pos::from_fen(text);
        let byte_identical_standard = model.as_ref().map_or(false, |p| p.strict_validity_error().is_none());
        self.eval(fp64(text.as_bytes()), !byte_identical_standard);
        let rb = guard(|| Board::from_str(text)).map_err(|p| viol("C07", "totality/panic/from_str", format!("{:?}: {}", text, p)))?;
        let _ = guard(|| BoardBuilder::from_str(text).map(|b| b.to_string()))
            .map_err(|p| viol("C07", "totality/panic/builder_from_str", format!("{:?}: {}", text, p)))?;
        let rg = guard(|| Game::from_str(text)).map_err(|p| viol("C07", "totality/panic/game_from_str", format!("{:?}: {}", text, p)))?;
        if rb.is_ok() != rg.is_ok() {
            return Err(viol("C07", "consistency/board_and_game_disagree", format!("{:?}", text)));
        }
        // the older entry points to the same conversion
        #[allow(deprecated)]
        {
            let r1 = guard(|| Board::from_fen(text.to_string())).map_err(|p| viol("C07", "totality/panic/from_fen", format!("{:?}: {}", text, p)))?;
            let r2 = guard(|| Game::new_from_fen(text)).map_err(|p| viol("C07", "totality/panic/new_from_fen", format!("{:?}: {}", text, p)))?;
            if r1.is_some() != rb.is_ok() || r2.is_some() != rb.is_ok() || (r1.is_some() && r1 != rb.as_ref().ok().cloned()) {
                return Err(viol("C07", "consistency/deprecated_entry_points_disagree", format!("{:?}", text)));
            }
        }
        match rb {
            Ok(b) => {
                self.stats.cnt("reach.text_accepted");
                self.soundness(&b, "text", &format!("{:?}", text))?;
                self.safe_use(&b, &format!("{:?}", text))?;
            }
            Err(_) => {
                self.stats.cnt("reach.text_rejected");
                if byte_identical_standard {
                    return Err(viol("C07", "completeness/valid_position_rejected", format!("{:?}", text)));
                }
            }
        }
        Ok(Flow::Go)
    }

    pub fn validate_builder(&mut self, placement: &str, stm: Col, castle: u8, ep_file: u8, order: u8) -> Result<Flow, Violation> {
        if !self.on(7) {
            return Ok(Flow::Go);
        }
        let bb = match builder_from_state(placement, stm, castle, ep_file, order) {
            Some(b) => b,
            None => return Ok(Flow::Go),
        };
        let pos = builder_state_pos(placement, stm, castle, ep_file).unwrap();
        let src = format!("builder[{} {:?} castle={} ep={} order={}]", placement, stm, castle, ep_file, order);
        if order != 0 {
            self.stats.cnt("reach.builder_other_call_order");
        }
        let mut f = Fnv::new();
        f.str(&src);
        self.eval(f.0, true);
        let r = guard(|| Board::try_from(&bb)).map_err(|p| viol("C07", "totality/panic/try_from", format!("{}: {}", src, p)))?;
        let _ = guard(|| bb.to_string()).map_err(|p| viol("C07", "totality/panic/builder_display", format!("{}: {}", src, p)))?;
        let men = pos.men(Col::W).max(pos.men(Col::B));
        if men > 16 {
            self.stats.cnt("fault.S-CROWD");
        }
        match r {
            Ok(b) => {
                self.stats.cnt("reach.builder_accepted");
                self.soundness(&b, "builder", &src)?;
                self.safe_use(&b, &src)?;
            }
            Err(_) => {
                self.stats.cnt("reach.builder_rejected");
                // completeness: a valid position must be accepted (en-passant file is an opportunity
                // marker only; the strict clause decides whether the state is a valid position)
                if pos.strict_validity_error().is_none() {
                    return Err(viol("C07", "completeness/valid_position_rejected", src));
                }
            }
        }
        Ok(Flow::Go)
    }

    // ------------------------------------------------------------------------------ C08 / C09 pairs

    pub fn pair(&mut self, a: &str, b: &str) -> Result<Flow, Violation> {
        if !(self.on(8) || self.on(9)) {
            return Ok(Flow::Go);
        }
        let (ba, bb) = match (guard(|| Board::from_str(a)), guard(|| Board::from_str(b))) {
            (Ok(Ok(x)), Ok(Ok(y))) => (x, y),
            _ => return Ok(Flow::Go),
        };
        // the same two positions through BoardBuilder: equal to the FEN construction, hash included
        let mut bb = bb;
        for (i, t) in [a, b].iter().enumerate() {
            if let Some(q) = Pos::from_fen(t) {
                if let Ok(Ok(via)) = guard(|| board_via_builder(&q)) {
                    let fen_board = if i == 0 { ba } else { bb };
                    if observe(&via) == observe(&fen_board) {
                        self.stats.cnt("reach.pair_member_also_built_through_builder");
                        if self.on(8) && (via.get_hash() != fen_board.get_hash() || via != fen_board) {
                            return Err(viol(
                                "C08",
                                "hash/builder_differs_from_fen",
                                format!("{:?}: builder {:016x}, from_str {:016x}", t, via.get_hash(), fen_board.get_hash()),
                            ));
                        }
                        if i == 1 && self.cur_n % 2 == 1 {
                            bb = via; // every other pair compares the FEN-built original with the builder-built sibling
                        }
                    }
                }
            }
        }
        let (oa, ob) = (observe(&ba), observe(&bb));
        // every pair member also enters the batch-wide census (siblings of one base against each other,
        // and against every position any run visits)
        for (o, brd) in [(&oa, &ba), (&ob, &bb)] {
            let q = pos_from_observed(o);
            let kb = q.key_beside();
            self.stats.keys.push((fp64(&kb), crate::rng::fp64b(&kb), brd.get_hash()));
            if self.watch_key == Some((fp64(&kb), crate::rng::fp64b(&kb))) && self.watch_hit.is_none() {
                self.watch_hit = Some(q.fen_ep_if_beside());
            }
        }
        let mut f = Fnv::new();
        f.str(a);
        f.str(b);
        if oa == ob {
            self.eval(f.0, a != b);
            if self.on(8) && ba.get_hash() != bb.get_hash() {
                return Err(viol("C08", "hash/pair_equal_positions_differ", format!("{:?} and {:?}", a, b)));
            }
            if self.on(8) && std_hash(&ba) != std_hash(&bb) {
                return Err(viol("C08", "std_hash/inconsistent_with_eq/pair", format!("{:?} and {:?}", a, b)));
            }
            return Ok(Flow::Go);
        }
        // two boards that show different positions must not compare equal (and if they do, Hash must still agree with ==)
        if self.on(8) && ba == bb {
            return Err(viol(
                "C08",
                if std_hash(&ba) != std_hash(&bb) || ba.get_hash() != bb.get_hash() { "std_hash/eq_true_but_hash_differs" } else { "eq/different_positions_compare_equal" },
                format!("{:?} and {:?} are different positions but compare ==", a, b),
            ));
        }
        let mut diffs: Vec<&'static str> = vec![];
        let nsq = (0..64).filter(|i| oa.sq[*i] != ob.sq[*i]).count();
        if nsq > 0 {
            diffs.push("piece");
        }
        if oa.stm != ob.stm {
            diffs.push("side");
        }
        if oa.castle != ob.castle {
            diffs.push("castling");
        }
        if oa.ep_pawn != ob.ep_pawn {
            diffs.push("en_passant");
        }
        let single = diffs.len() == 1 && nsq <= 1;
        self.eval(f.0, single);
        if single {
            self.stats.cnt_dyn(format!("sibling.{}", diffs[0]));
        }
        if self.on(9) && ba.get_hash() == bb.get_hash() {
            return Err(viol(
                "C09",
                &format!("sibling/same_hash/{}", diffs.join("+")),
                format!("{:?} and {:?} differ in {} but both hash to {:016x}", a, b, diffs.join("+"), ba.get_hash()),
            ));
        }
        Ok(Flow::Go)
    }
}
