//! Reference-model self-test: perft against PUBLISHED node counts. The library is not involved.
//! A failure here is a harness error (exit 2), never a property violation.

use crate::model::*;

pub struct PerftCase {
    pub fen: &'static str,
    pub depth: u32,
    pub nodes: u64,
}

/// Quick set (run at the start of every check, < 1.5 s single-threaded).
pub const QUICK: &[PerftCase] = &[
    PerftCase { fen: "rnbqkbnr/pppppppp/8/8/8/8/PPPPPPPP/RNBQKBNR w KQkq - 0 1", depth: 3, nodes: 8902 },
    PerftCase { fen: "r3k2r/p1ppqpb1/bn2pnp1/3PN3/1p2P3/2N2Q1p/PPPBBPPP/R3K2R w KQkq - 0 1", depth: 2, nodes: 2039 },
    PerftCase { fen: "8/2p5/3p4/KP5r/1R3p1k/8/4P1P1/8 w - - 0 1", depth: 3, nodes: 2812 },
    PerftCase { fen: "r3k2r/Pppp1ppp/1b3nbN/nP6/BBP1P3/q4N2/Pp1P2PP/R2Q1RK1 w kq - 0 1", depth: 2, nodes: 264 },
    PerftCase { fen: "rnbq1k1r/pp1Pbppp/2p5/8/2B5/8/PPP1NnPP/RNBQK2R w KQ - 1 8", depth: 2, nodes: 1486 },
    PerftCase { fen: "r4rk1/1pp1qppp/p1np1n2/2b1p1B1/2B1P1b1/P1NP1N2/1PP1QPPP/R4RK1 w - - 0 10", depth: 2, nodes: 2079 },
    PerftCase { fen: "K1k5/8/P7/8/8/8/8/8 w - - 0 1", depth: 6, nodes: 2217 },
    PerftCase { fen: "8/8/8/8/8/p7/8/k1K5 b - - 0 1", depth: 6, nodes: 2217 },
    PerftCase { fen: "8/8/2k5/5q2/5n2/8/5K2/8 b - - 0 1", depth: 4, nodes: 23527 },
];

/// Full set (setup_cmd; run on all cores).
pub const FULL: &[PerftCase] = &[
    PerftCase { fen: "rnbqkbnr/pppppppp/8/8/8/8/PPPPPPPP/RNBQKBNR w KQkq - 0 1", depth: 4, nodes: 197281 },
    PerftCase { fen: "r3k2r/p1ppqpb1/bn2pnp1/3PN3/1p2P3/2N2Q1p/PPPBBPPP/R3K2R w KQkq - 0 1", depth: 3, nodes: 97862 },
    PerftCase { fen: "8/2p5/3p4/KP5r/1R3p1k/8/4P1P1/8 w - - 0 1", depth: 5, nodes: 674624 },
    PerftCase { fen: "r3k2r/Pppp1ppp/1b3nbN/nP6/BBP1P3/q4N2/Pp1P2PP/R2Q1RK1 w kq - 0 1", depth: 4, nodes: 422333 },
    PerftCase { fen: "r2q1rk1/pP1p2pp/Q4n2/bbp1p3/Np6/1B3NBn/pPPP1PPP/R3K2R b KQ - 0 1", depth: 4, nodes: 422333 },
    PerftCase { fen: "rnbq1k1r/pp1Pbppp/2p5/8/2B5/8/PPP1NnPP/RNBQK2R w KQ - 1 8", depth: 3, nodes: 62379 },
    PerftCase { fen: "r4rk1/1pp1qppp/p1np1n2/2b1p1B1/2B1P1b1/P1NP1N2/1PP1QPPP/R4RK1 w - - 0 10", depth: 3, nodes: 89890 },
    // Martin Sedlak's perft suite (the roots the repository's own tests use), published counts
    PerftCase { fen: "8/5bk1/8/2Pp4/8/1K6/8/8 w - d6 0 1", depth: 6, nodes: 824064 },
    PerftCase { fen: "8/8/1k6/8/2pP4/8/5BK1/8 b - d3 0 1", depth: 6, nodes: 824064 },
    PerftCase { fen: "8/8/1k6/2b5/2pP4/8/5K2/8 b - d3 0 1", depth: 6, nodes: 1440467 },
    PerftCase { fen: "8/5k2/8/2Pp4/2B5/1K6/8/8 w - d6 0 1", depth: 6, nodes: 1440467 },
    PerftCase { fen: "5k2/8/8/8/8/8/8/4K2R w K - 0 1", depth: 6, nodes: 661072 },
    PerftCase { fen: "4k2r/8/8/8/8/8/8/5K2 b k - 0 1", depth: 6, nodes: 661072 },
    PerftCase { fen: "3k4/8/8/8/8/8/8/R3K3 w Q - 0 1", depth: 6, nodes: 803711 },
    PerftCase { fen: "r3k3/8/8/8/8/8/8/3K4 b q - 0 1", depth: 6, nodes: 803711 },
    PerftCase { fen: "r3k2r/1b4bq/8/8/8/8/7B/R3K2R w KQkq - 0 1", depth: 4, nodes: 1274206 },
    PerftCase { fen: "r3k2r/7b/8/8/8/8/1B4BQ/R3K2R b KQkq - 0 1", depth: 4, nodes: 1274206 },
    PerftCase { fen: "r3k2r/8/3Q4/8/8/5q2/8/R3K2R b KQkq - 0 1", depth: 4, nodes: 1720476 },
    PerftCase { fen: "r3k2r/8/5Q2/8/8/3q4/8/R3K2R w KQkq - 0 1", depth: 4, nodes: 1720476 },
    PerftCase { fen: "2K2r2/4P3/8/8/8/8/8/3k4 w - - 0 1", depth: 6, nodes: 3821001 },
    PerftCase { fen: "3K4/8/8/8/8/8/4p3/2k2R2 b - - 0 1", depth: 6, nodes: 3821001 },
    PerftCase { fen: "8/8/1P2K3/8/2n5/1q6/8/5k2 b - - 0 1", depth: 5, nodes: 1004658 },
    PerftCase { fen: "5K2/8/1Q6/2N5/8/1p2k3/8/8 w - - 0 1", depth: 5, nodes: 1004658 },
    PerftCase { fen: "4k3/1P6/8/8/8/8/K7/8 w - - 0 1", depth: 6, nodes: 217342 },
    PerftCase { fen: "8/k7/8/8/8/8/1p6/4K3 b - - 0 1", depth: 6, nodes: 217342 },
    PerftCase { fen: "8/P1k5/K7/8/8/8/8/8 w - - 0 1", depth: 6, nodes: 92683 },
    PerftCase { fen: "8/8/8/8/8/k7/p1K5/8 b - - 0 1", depth: 6, nodes: 92683 },
    PerftCase { fen: "8/k1P5/8/1K6/8/8/8/8 w - - 0 1", depth: 7, nodes: 567584 },
    PerftCase { fen: "8/8/8/8/1k6/8/K1p5/8 b - - 0 1", depth: 7, nodes: 567584 },
    PerftCase { fen: "8/5k2/8/5N2/5Q2/2K5/8/8 w - - 0 1", depth: 4, nodes: 23527 },
];

pub fn run_cases(cases: &[PerftCase]) -> Result<u64, String> {
    let mut total = 0;
    for c in cases {
        let p = Pos::from_fen(c.fen).ok_or_else(|| format!("model cannot read {}", c.fen))?;
        let n = p.perft(c.depth);
        if n != c.nodes {
            return Err(format!("model perft({}) of {} = {}, published {}", c.depth, c.fen, n, c.nodes));
        }
        total += n;
    }
    Ok(total)
}

/// Structural self-checks of the model that do not need numbers: mirror involution, FEN round trip,
/// SAN writer/recogniser agreement on every legal move of a few positions.
pub fn structural() -> Result<(), String> {
    for f in crate::gen::CORPUS {
        match Pos::from_fen(f) {
            Some(p) => {
                if let Some(e) = p.strict_validity_error() {
                    return Err(format!("corpus entry {} is not a valid position: {}", f, e));
                }
            }
            None => return Err(format!("corpus entry {} is not a standard FEN", f)),
        }
    }
    for c in QUICK {
        let p = Pos::from_fen(c.fen).unwrap();
        if Pos::from_fen(&p.fen()).as_ref() != Some(&p) {
            return Err(format!("model FEN round trip fails for {}", c.fen));
        }
        if p.mirror_colour().mirror_colour() != p {
            return Err(format!("mirror_colour not an involution for {}", c.fen));
        }
        let a = p.legal_moves().len();
        let b = p.mirror_colour().legal_moves().len();
        if a != b {
            return Err(format!("model is not colour-symmetric on {}: {} vs {}", c.fen, a, b));
        }
        for m in p.legal_moves() {
            for s in san_spellings(&p, m) {
                let t = s.text();
                match San::parse(&t) {
                    Some(back) if back == s => {}
                    other => return Err(format!("SAN recogniser/writer disagree on {:?}: {:?}", t, other)),
                }
                let ms = s.matches(&p);
                if ms != vec![m] {
                    return Err(format!("SAN spelling {:?} of {} fits {:?} in {}", t, m.uci(), ms, c.fen));
                }
            }
        }
    }
    Ok(())
}
