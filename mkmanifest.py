#!/usr/bin/env python3
"""Regenerates /verif/MANIFEST.json from the table below (kept in one place so the file stays valid)."""
import json

TECH = "deterministic simulation with fault injection: seeded discrete-event world (server + clients + spectator + mirror shadows, faulty transport/disk/crashes) driving the real library against a reference model; seeded search over schedules and fault sequences; minimised replay scripts"

CHECKS = {
 "C01": ("monitor", "9", "Monitor over simulated histories: at every position any node visits, generated moves / len / legal_quick / enumerate_moves vs the reference model, every arriving move value (random, stale, bit-flipped) at the legality query, full 64x64x5 sweeps on sampled positions. The simulator contributes which positions are reached and by which path; no schedule or fault dimension is searched for this property itself."),
 "C02": ("monitor", "9", "Monitor: every move applied on the server, on client replicas and on engine descents; both entry points with a used (dirty) output buffer as injected stale state; successor vs model. History sampler with a strong oracle, not a schedule search."),
 "C03": ("replica", "7", "Replica divergence invariant of the simulated deployment: incremental server, incremental replicas, text-only spectator, journal-recovered server, engine stacks and null-moved boards must agree with the model and with Board::from_str of their own FEN in every observable."),
 "C04": ("monitor", "9", "Monitor: status() and Game::result() vs model on every visited position; workloads steered into terminal positions (terminator policy, endgame and mate-in-one starts). Endgames are sampled, not enumerated."),
 "C05": ("replica", "7", "History monitor along every simulated history, across crash recovery and snapshot install: validity of each reached position and monotonicity of rights and material."),
 "C06": ("native", "6", "FEN is the snapshot, journal and hand-over format of the simulated deployment: every render is checked for standard form, field content and the en-passant field rule, and three round trips; recovery and resync depend on it."),
 "C07": ("native", "6", "Text from the wire and disk under corruption faults plus arbitrary builder states from a set-up client, in worker processes so that aborts are detected: no panic, acceptance is sound and complete, accepted positions are safe to use."),
 "C08": ("replica", "7", "Hash as travelling fingerprint between nodes that reached the same position by different paths (incremental, snapshot, recovery, null move, transposition, builder) plus a batch-wide key->hash table."),
 "C09": ("narrow", "7", "Narrow claim: single-component siblings of visited positions and corrupted-but-valid snapshots/updates/journal records must change the hash; batch-wide collision census over visited positions only. Says nothing about positions never visited."),
 "C10": ("native", "6", "Native fit: two players, arbiter and a crashing server over a faulty transport; every interleaving of moves, offers, accepts, resignations, claims, duplicates, stale and post-result actions against GameModel in lock-step, including journal recovery."),
 "C11": ("native", "6", "Native fit: long adversarially shuffled histories with claims at arbitrary instants and after recovery vs occurrence count / half-move clock; ambiguous en-passant repetition cases are counted, not asserted."),
 "C12": ("native", "6", "SAN as wire encoding: all admissible spellings of all legal moves after every accepted move; stale, ambiguous, corrupted and noise text; exact round trip, narrow rejection rule, totality."),
 "C13": ("native", "6", "Coordinate text as wire and journal encoding: identity round trip, format, prefix rule, totality under corruption; coverage of all 20480 move values and 64 squares is measured, not assumed."),
 "C14": ("weak", "8", "Weak fit: stateful single-owner object; engine tasks issue seeded call programs (removals, mask sequences, len probes) against IterModel. No fault kind beyond program shape bears on it."),
 "C17": ("monitor", "9", "Monitor: mirror shadow servers play the colour-flipped / file-flipped game in lock-step; library compared with its own mirror image, no reference model involved."),
 "C18": ("monitor", "9", "Monitor: engine tasks interleave null moves with real moves; refusal iff in check, result equals the from-scratch construction in every observable."),
 "C19": ("weak", "8", "Weak fit: one table shared by interleaved engine tasks, size per run, aliasing keys, invalid sizes; every operation against TableModel with read-back windows; out-of-bounds access aborts the worker process and is attributed."),
}

NA = {
 "C15": "pure total function of (square, occupancy) over build-time tables, quantified over complete enumeration in two build configurations: no state, history, schedule, clock or fault can change its value; a seeded simulation would only sample occupancies that occur in play (input generation in simulator vocabulary). Exercised incidentally inside every claimed check, not claimed.",
 "C16": "finite pure functions of one or two squares, a colour and a blocker set; the statement demands complete enumeration of a domain with no operation sequence or fault in it. Not a simulation target.",
 "C20": "algebraic laws of a u64 newtype quantified over all 64-bit values: stateless, history-free, fault-free. Not a simulation target.",
}

def main():
    checks = []
    for pid, (kind, sec, text) in sorted(CHECKS.items()):
        checks.append({
            "property_id": pid,
            "quick_cmd": f"./check {pid} --tier quick",
            "thorough_cmd": f"./check {pid} --tier thorough",
            "evidence_file": f"/verif/evidence/{pid}.json",
            "replay_cmd_template": f"./check {pid} --replay {{path}}",
            "engine": "chess-dst",
            "level_claimed": {"category": "exploration", "text": text, "design_ref": f"DESIGN.md section {sec}"},
            "level_note": "Seeded sampling, not enumeration and not proof. Trusted base: the hand-written reference model (perft-tested against published counts before every batch) and the executor's node logic. Batches are sized in runs, so one VERIF_SEED explores exactly the same runs on any machine.",
            "technique": TECH,
        })
    m = {
        "version": 1,
        "setup_cmd": "./check --setup",
        "hooks": {
            "guard": "chess_verif",
            "enable": "no hook exists: the library has no source of nondeterminism to put behind a seam (no threads, clock, I/O, randomness or interior mutability); checks build /repo as a path dependency with the harness profile (opt-level 3, debug-assertions, overflow-checks)",
            "baseline_off_cmd": "cd /repo && cargo test --workspace --no-fail-fast --offline",
            "source_commits": [],
            "add_only": True,
        },
        "engines": [{
            "name": "chess-dst",
            "path": "/verif/sim",
            "serves_properties": sorted(CHECKS.keys()),
            "kind_free_text": "single-process discrete-event simulator with one PRNG (VERIF_SEED), explicit replay scripts, ddmin minimiser, process-isolated workers",
        }],
        "checks": checks,
        "not_applicable": [{"property_id": k, "reason": v} for k, v in sorted(NA.items())],
        "notes": "Exit codes: 0 held (KNOWN-FINDING lines possible), 1 VIOLATION, 2 harness error. Known findings: /verif/known_findings.txt. Replays are written to /verif/replays/.",
    }
    json.dump(m, open("/verif/MANIFEST.json", "w"), indent=1)
    print("wrote MANIFEST.json with", len(checks), "checks")

main()
