#!/bin/bash
# ./run_all.sh [quick|thorough]  — every claimed check once; prints one summary line per property
TIER="${1:-quick}"
rc_all=0
for p in C01 C02 C03 C04 C05 C06 C07 C08 C09 C10 C11 C12 C13 C14 C17 C18 C19; do
  s=$(date +%s.%N)
  out=$(./check $p --tier "$TIER" 2>&1); rc=$?
  e=$(date +%s.%N)
  printf "%s rc=%d %.1fs  %s\n" "$p" "$rc" "$(echo "$e - $s" | bc)" "$(echo "$out" | grep -E "^$p:" | tail -1)"
  echo "$out" | grep -E "VIOLATION|KNOWN-FINDING|HARNESS|note:" | head -5
  [ $rc -ne 0 ] && rc_all=$rc
done
exit $rc_all
